use std::collections::VecDeque;
fn should_search_right<V: PartialOrd>(first: V, value: V, target: V) -> bool {
    let first_wrapped = first > value;
    let target_wrapped = target < first;
    if value < target { !first_wrapped || target_wrapped } else { first_wrapped && !target_wrapped }
}
fn search(element_count: usize, target: u64, a: &Vec<Option<u64>>, calls: &mut usize) -> Option<usize> {
    let mut f = |i: usize| { *calls += 1; a[i] };
    if element_count == 0 { return None; }
    let some_target = Some(&target);
    let mut nearest: Option<usize> = None; let mut nearest_v: Option<u64> = None;
    let mut first_value = f(0);
    let mut first_value_ref = first_value.as_ref();
    if first_value_ref == some_target { return Some(0); }
    let mut low = 0; let mut high = element_count;
    let mut queue = VecDeque::from([(0, element_count - 1)]);
    while !queue.is_empty() {
        if let Some((start, end)) = queue.pop_front() {
            if start > end { continue; }
            let mid = (start + end) / 2;
            let mid_value = f(mid);
            let mid_value_ref = mid_value.as_ref();
            if mid_value_ref.is_none() {
                queue.push_back((mid + 1, end));
                if mid > 0 { queue.push_back((start, mid - 1)); }
                continue;
            }
            if mid_value_ref <= some_target && mid_value > nearest_v { nearest = Some(mid); nearest_v = mid_value; }
            if mid_value_ref == some_target { return nearest; }
            if should_search_right(first_value_ref, mid_value_ref, some_target) { low = mid + 1; } else { high = mid; }
        }
        break;
    }
    if low >= high { return nearest; }
    first_value = f(low);
    first_value_ref = first_value.as_ref();
    while low < high {
        let mid = low + (high - low) / 2;
        let value = f(mid);
        let value_ref = value.as_ref();
        if value_ref.is_some() && value_ref <= some_target && value > nearest_v { nearest = Some(mid); nearest_v = value; }
        if value_ref == some_target { return Some(mid); }
        if should_search_right(first_value_ref, value_ref, some_target) { low = mid + 1; } else { high = mid; }
    }
    nearest
}
fn main() {
    let n: usize = std::env::args().nth(1).unwrap().parse().unwrap();
    let mut bad = 0; let mut total = 0; let mut maxcalls = 0;
    let mut examples = vec![];
    // shapes: newest position p in 0..n, populated count k in 1..=n ; plus empty
    for p in 0..n { for k in 1..=n {
        let mut a = vec![None; n];
        // newest at p with value 1000+k, going backwards
        for j in 0..k { let idx = (p + n - j) % n; a[idx] = Some((1000 + k - j) as u64); }
        let mut calls = 0;
        let r = search(n, u64::MAX, &a, &mut calls);
        total += 1; if calls > maxcalls { maxcalls = calls; }
        if r != Some(p) { bad += 1; if examples.len() < 12 { examples.push((p, k, r)); } }
    }}
    let mut calls = 0;
    let r = search(n, u64::MAX, &vec![None; n], &mut calls);
    println!("n={} total={} bad={} empty->{:?} calls_empty={} maxcalls={}", n, total+1, bad, r, calls, maxcalls);
    println!("{:?}", examples);
}
