// probe harness module appended to nexrad-decode/src/lib.rs in a scratch copy of /repo
#[cfg(kani)]
mod verif_harness {
    use std::io::{Read, Seek, SeekFrom, Result as IoResult, Error as IoError, ErrorKind};
    struct SliceReader<'a> { buf: &'a [u8], pos: usize }
    impl<'a> Read for SliceReader<'a> {
        fn read(&mut self, out: &mut [u8]) -> IoResult<usize> {
            let n = core::cmp::min(out.len(), self.buf.len() - self.pos);
            out[..n].copy_from_slice(&self.buf[self.pos..self.pos + n]);
            self.pos += n;
            Ok(n)
        }
    }
    impl<'a> Seek for SliceReader<'a> {
        fn seek(&mut self, to: SeekFrom) -> IoResult<u64> {
            let np: i128 = match to {
                SeekFrom::Start(p) => p as i128,
                SeekFrom::Current(d) => self.pos as i128 + d as i128,
                SeekFrom::End(d) => self.buf.len() as i128 + d as i128,
            };
            if np < 0 || np > self.buf.len() as i128 { return Err(IoError::from(ErrorKind::InvalidInput)); }
            self.pos = np as usize;
            Ok(self.pos as u64)
        }
    }

    #[kani::proof]
    #[kani::unwind(5)]
    fn drd_elv_layout() {
        let mut bytes: [u8; 32 + 4 + 12] = kani::any();
        bytes[30] = 0; bytes[31] = 1;
        bytes[32] = 0; bytes[33] = 0; bytes[34] = 0; bytes[35] = 36;
        bytes[36] = b'R'; bytes[37] = b'E'; bytes[38] = b'L'; bytes[39] = b'V';
        let mut c = SliceReader { buf: &bytes[..], pos: 0 };
        let m = crate::messages::digital_radar_data::decode_digital_radar_data(&mut c).unwrap();
        let v = m.elevation_data_block.unwrap();
        assert_eq!(v.lrtup, u16::from_be_bytes([bytes[40], bytes[41]]));
        assert!(m.volume_data_block.is_none());
        assert!(m.reflectivity_data_block.is_none());
        assert_eq!(c.pos, 48);
    }

    #[kani::proof]
    #[kani::unwind(5)]
    fn drd_unknown_name_total() {
        let mut bytes: [u8; 32 + 4 + 28 + 2] = kani::any();
        bytes[30] = 0; bytes[31] = 1;
        bytes[32] = 0; bytes[33] = 0; bytes[34] = 0; bytes[35] = 36;
        // name bytes 37..40 symbolic; gates <= 2, word size symbolic
        bytes[36+8] = 0; kani::assume(bytes[36+9] <= 2);
        let mut c = SliceReader { buf: &bytes[..], pos: 0 };
        let _ = crate::messages::digital_radar_data::decode_digital_radar_data(&mut c);
    }
}
