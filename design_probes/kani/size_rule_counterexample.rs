// probe harness module appended to nexrad-decode/src/lib.rs in a scratch copy of /repo
#[cfg(kani)]
mod verif_harness {
    use crate::messages::decode_message_header;
    #[kani::proof]
    fn size_rule() {
        let bytes: [u8; 28] = kani::any();
        let mut r: &[u8] = &bytes;
        let h = decode_message_header(&mut r).unwrap();
        if h.segment_size == 0xFFFF {
            assert_eq!(h.message_size_bytes(), ((h.segment_count as u32) << 16) | h.segment_number as u32);
        } else {
            assert_eq!(h.message_size_bytes(), 2 * h.segment_size as u32);
        }
    }
}
