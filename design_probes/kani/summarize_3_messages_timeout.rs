// probe harness module appended to nexrad-decode/src/lib.rs in a scratch copy of /repo
#[cfg(kani)]
mod verif_harness {
    use crate::messages::{Message, MessageContents, decode_message_header};
    use crate::messages::digital_radar_data;

    fn any_header(ty: u8) -> crate::messages::message_header::MessageHeader {
        let mut bytes: [u8; 28] = [0; 28];
        bytes[15] = ty;
        bytes[18] = 0; bytes[19] = 1;
        let mut r: &[u8] = &bytes;
        decode_message_header(&mut r).unwrap()
    }

    fn any_msg() -> Message {
        let k: u8 = kani::any();
        if k == 0 {
            let mut hb: [u8; 32] = [0; 32];
            hb[22] = kani::any(); // elevation number
            hb[7] = 1; hb[9] = 1;
            let mut r: &[u8] = &hb;
            let h: digital_radar_data::Header = crate::util::deserialize(&mut r).unwrap();
            let m = digital_radar_data::Message::new(h);
            Message::unsegmented(any_header(31), MessageContents::DigitalRadarData(Box::new(m)))
        } else {
            let ty: u8 = kani::any();
            kani::assume(ty != 31 && ty != 2 && ty != 5);
            Message::unsegmented(any_header(ty), MessageContents::Other)
        }
    }

    #[kani::proof]
    #[kani::unwind(5)]
    fn summarize_tiling_3() {
        let msgs = vec![any_msg(), any_msg(), any_msg()];
        let s = crate::summarize::messages(&msgs);
        let g = &s.message_groups;
        assert!(g.len() >= 1 && g.len() <= 3);
        assert!(g[0].start_message_index == 0);
        assert!(g[g.len()-1].end_message_index == 2);
        let mut i = 0;
        while i + 1 < g.len() {
            assert!(g[i].end_message_index + 1 == g[i+1].start_message_index);
            i += 1;
        }
    }
}
