// probe harnesses (appended to nexrad-decode/src/lib.rs in a scratch copy); measured results in DESIGN.md §1
#[cfg(kani)]
mod verif_harness {
    use crate::messages::decode_message_header;
    use crate::util::get_datetime;
    use chrono::Duration;

    #[kani::proof]                       // 30 s
    fn header_layout() {
        let bytes: [u8; 28] = kani::any();
        let mut r: &[u8] = &bytes;
        let h = decode_message_header(&mut r).unwrap();
        assert_eq!(h.segment_size, u16::from_be_bytes([bytes[12], bytes[13]]));
        assert_eq!(h.redundant_channel, bytes[14]);
        assert_eq!(h.message_type, bytes[15]);
        assert_eq!(h.sequence_number, u16::from_be_bytes([bytes[16], bytes[17]]));
        assert_eq!(h.date, u16::from_be_bytes([bytes[18], bytes[19]]));
        assert_eq!(h.time, u32::from_be_bytes([bytes[20], bytes[21], bytes[22], bytes[23]]));
        assert_eq!(h.segment_count, u16::from_be_bytes([bytes[24], bytes[25]]));
        assert_eq!(h.segment_number, u16::from_be_bytes([bytes[26], bytes[27]]));
        assert_eq!(r.len(), 0);
    }

    #[kani::proof]
    #[kani::solver(kissat)]              // 147 s
    fn dt_secs() {
        let d: u16 = kani::any();
        let t: u32 = kani::any();
        kani::assume(d >= 1);
        kani::assume(t < 86_400_000);
        let dt = get_datetime(d, Duration::milliseconds(t as i64)).unwrap();
        assert_eq!(dt.timestamp(), (d as i64 - 1) * 86_400 + (t / 1000) as i64);
        assert_eq!(dt.timestamp_subsec_millis(), t % 1000);
    }

    #[kani::proof]                       // 6 s
    fn datetime_total() {
        let d: u16 = kani::any();
        let t: u32 = kani::any();
        let _ = get_datetime(d, Duration::milliseconds(t as i64));
    }

    #[kani::proof]                       // 138 s
    fn rda_layout() {
        let bytes: [u8; 120] = kani::any();
        let mut r: &[u8] = &bytes;
        let m = crate::messages::rda_status_data::decode_rda_status_message(&mut r).unwrap();
        assert_eq!(m.rda_status, u16::from_be_bytes([bytes[0], bytes[1]]));
        assert_eq!(m.status_version, u16::from_be_bytes([bytes[118], bytes[119]]));
        assert_eq!(m.alarm_codes[13], u16::from_be_bytes([bytes[78], bytes[79]]));
    }
}
