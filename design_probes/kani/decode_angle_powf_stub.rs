// probe harness module appended to nexrad-decode/src/messages/volume_coverage_pattern/elevation_data_block.rs in a scratch copy of /repo
#[cfg(kani)]
mod verif_harness {
    use super::*;
    fn pow2_exact(base: f64, e: f64) -> f64 {
        // assumed contract of f64::powf restricted to the call sites: base == 2, integer exponent in [-15, 0]
        assert!(base == 2.0);
        let k = e as i32;
        assert!(k as f64 == e && k <= 0 && k >= -15);
        1.0 / ((1u32 << (-k) as u32) as f64)
    }
    #[kani::proof]
    #[kani::stub(f64::powf, pow2_exact)]
    fn angle_exact() {
        let raw: u16 = kani::any();
        let a = decode_angle(raw);
        assert!(a == ((raw >> 3) as f64) * 180.0 / 4096.0);
    }
    #[kani::proof]
    #[kani::stub(f64::powf, pow2_exact)]
    fn rate_exact() {
        let raw: u16 = kani::any();
        let a = decode_angular_velocity(raw);
        let m = (((raw >> 3) & 0xFFF) as f64) * 22.5 / 2048.0;
        assert!(a == if raw & 0x8000 != 0 { -m } else { m });
    }
}
