// probe harness module appended to nexrad-data/src/lib.rs in a scratch copy of /repo
#[cfg(kani)]
mod verif_harness {
    use crate::aws::realtime::{VolumeIndex, get_latest_volume};
    use core::future::Future;
    use core::task::{Context, Poll, Waker};
    use std::sync::atomic::{AtomicUsize, Ordering};

    fn block_on<F: Future>(fut: F) -> F::Output {
        let mut cx = Context::from_waker(Waker::noop());
        let mut fut = Box::pin(fut);
        loop {
            if let Poll::Ready(v) = fut.as_mut().poll(&mut cx) { return v; }
        }
    }

    async fn search_stub<F, V>(
        element_count: usize,
        _target: V,
        mut f: impl FnMut(usize) -> F,
    ) -> crate::result::Result<Option<usize>>
    where
        F: Future<Output = crate::result::Result<Option<V>>>,
        V: PartialOrd + Clone,
    {
        assert!(element_count == 999);
        let i: usize = kani::any();
        kani::assume(i < element_count);
        let _ = f(i).await?;
        assert!(ASKED.load(Ordering::Relaxed) == i + 1);
        let j: usize = kani::any();
        kani::assume(j < element_count);
        LAST_J.store(j, Ordering::Relaxed);
        Ok(Some(j))
    }

    static ASKED: AtomicUsize = AtomicUsize::new(0);
    static LAST_J: AtomicUsize = AtomicUsize::new(0);
    async fn list_stub(
        _site: &str,
        volume: VolumeIndex,
        max_keys: usize,
    ) -> crate::result::Result<Vec<crate::aws::realtime::ChunkIdentifier>> {
        ASKED.store(volume.as_number(), Ordering::Relaxed);
        assert!(max_keys == 1);
        Ok(Vec::new())
    }

    #[kani::proof]
    #[kani::unwind(3)]
    #[kani::stub(crate::aws::realtime::search::search, search_stub)]
    #[kani::stub(crate::aws::realtime::list_chunks_in_volume::list_chunks_in_volume, list_stub)]
    fn latest_volume_mapping() {
        let r = block_on(get_latest_volume("KTLX")).unwrap();
        assert!(r.calls == 1);
        let v = r.volume.unwrap().as_number();
        assert!(v == LAST_J.load(Ordering::Relaxed) + 1);
    }
}
