use vstd::prelude::*;
verus! {
fn t(a: u64, b: u64) {
    let x = Some(&a);
    let y = Some(&b);
    let n: Option<&u64> = None;
    let r = x < y;
    assert(r == (a < b));
    let r2 = n < x;
    assert(r2);
    let r3 = x == y;
    assert(r3 == (a == b));
    let r4 = n <= n;
    assert(r4);
}
}
fn main(){}
