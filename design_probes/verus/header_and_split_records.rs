use vstd::prelude::*;
verus! {

spec fn be32(b: [u8; 4]) -> int { b[0] as int * 16777216 + b[1] as int * 65536 + b[2] as int * 256 + b[3] as int }
#[verifier::external_body]
fn shim_i32_from_be_bytes(b: [u8; 4]) -> (r: i32)
    ensures r as int == (if be32(b) >= 0x8000_0000 { be32(b) - 0x1_0000_0000 } else { be32(b) })
{ i32::from_be_bytes(b) }
pub assume_specification [ i32::unsigned_abs ] (x: i32) -> (r: u32)
    ensures r as int == (if x < 0 { -(x as int) } else { x as int });
type Integer1 = u8;
type Integer2 = u16;
type Integer4 = u32;

const VARIABLE_LENGTH_MESSAGE_SIZE: u16 = 65535;

struct MessageHeader {
    rpg_unknown: [u8; 12],
    segment_size: Integer2,
    redundant_channel: Integer1,
    message_type: Integer1,
    sequence_number: Integer2,
    date: Integer2,
    time: Integer4,
    segment_count: Integer2,
    segment_number: Integer2,
}

impl MessageHeader {
    fn segmented(&self) -> (r: bool)
        ensures r == (self.segment_size != 0xFFFF)
    {
        self.segment_size < VARIABLE_LENGTH_MESSAGE_SIZE
    }

    fn segment_count(&self) -> (r: Option<u16>)
        ensures self.segment_size != 0xFFFF ==> r == Some(self.segment_count),
                self.segment_size == 0xFFFF ==> r is None,
    {
        if self.segment_size < VARIABLE_LENGTH_MESSAGE_SIZE {
            Some(self.segment_count)
        } else {
            None
        }
    }

    fn message_size_bytes(&self) -> (r: u32)
        ensures self.segment_size != 0xFFFF ==> r == 2 * self.segment_size as int,
                self.segment_size == 0xFFFF ==> r == self.segment_count as int * 65536 + self.segment_number as int,
    {
        match self.segment_count() {
            Some(_) => self.segment_size as u32 * 2,
            None => {
                let segment_number = self.segment_number as u32;
                let segment_size = self.segment_size as u32;
                (segment_number << 16) | (segment_size << 1)
            }
        }
    }

    fn message_size_half(&self) -> (r: u16)
    {
        let segment_size_bytes = self.segment_size << 1;
        segment_size_bytes
    }
    fn seg_size2(&self) -> (r: u16)
    {
        self.segment_size * 2
    }
}

fn split(data: &[u8]) -> (n: usize)
{
    let mut position: usize = 0;
    let mut n: usize = 0;
    loop
        decreases data.len() - position
    {
        if position >= data.len() {
            break;
        }

        let mut record_size = [0; 4];
        record_size.copy_from_slice(&data[position..position + 4]);
        let record_size = shim_i32_from_be_bytes(record_size).unsigned_abs() as usize;
        let s = &data[position..position + record_size + 4];
        position += record_size + 4;
    }
    n
}

} // verus!
fn main() {}
