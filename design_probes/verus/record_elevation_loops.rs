use vstd::prelude::*;
verus! {

pub assume_specification<T> [<[T] as std::convert::AsRef<[T]>>::as_ref] (s: &[T]) -> (r: &[T])
    ensures r@ == s@;
enum RecordData<'a> {
    Borrowed(&'a [u8]),
    Owned(Vec<u8>),
}

struct Record<'a>(RecordData<'a>);

impl<'a> Record<'a> {
    fn new(data: Vec<u8>) -> Self {
        Record(RecordData::Owned(data))
    }

    fn from_slice(data: &'a [u8]) -> Self {
        Record(RecordData::Borrowed(data))
    }

    fn data(&self) -> (r: &[u8])
    {
        match &self.0 {
            RecordData::Borrowed(data) => data,
            RecordData::Owned(data) => data,
        }
    }

    fn compressed(&self) -> (r: bool)
    {
        self.data().len() >= 6 && self.data()[4..6].as_ref() == b"BZ"
    }
}

struct ElevationDataBlock { super_resolution_control: u8 }
impl ElevationDataBlock {
    fn super_resolution_control_half_degree_azimuth(&self) -> (r: bool)
        ensures r == (self.super_resolution_control & 1 == 1)
    {
        (self.super_resolution_control & 0x1) == 1
    }
}

fn get_elevation_from_chunk(
    sequence: usize,
    elevations: &Vec<ElevationDataBlock>,
) -> Option<&ElevationDataBlock> {
    if sequence == 1 {
        return None;
    }

    let mut chunk_count = 1;
    for elevation in elevations {
        let elevation_chunk_count = if elevation.super_resolution_control_half_degree_azimuth() {
            6
        } else {
            3
        };

        chunk_count += elevation_chunk_count;

        if sequence <= chunk_count {
            return Some(elevation);
        }
    }

    None
}

fn loops(elevation_segment_count: u8) {
    for elevation_segment_number in 0..elevation_segment_count {
        let mut v: Vec<u16> = Vec::with_capacity(360);
        for azimuth_number in 0..360 {
            v.push(azimuth_number);
        }
    }
}

} // verus!
fn main() {}
