use vstd::prelude::*;
use vstd::std_specs::iter::IteratorSpec;
verus! {

struct MomentData {
    scale: f32,
    offset: f32,
    values: Vec<u8>,
}

enum RadialStatus {
    ElevationStart,
    IntermediateRadialData,
    ElevationEnd,
    VolumeScanStart,
    VolumeScanEnd,
    ElevationStartVCPFinal,
}

struct Radial {
    collection_timestamp: i64,
    azimuth_number: u16,
    azimuth_angle_degrees: f32,
    azimuth_spacing_degrees: f32,
    radial_status: RadialStatus,
    elevation_number: u8,
    elevation_angle_degrees: f32,
    reflectivity: Option<MomentData>,
    velocity: Option<MomentData>,
}

impl Radial {
    fn elevation_number(&self) -> (r: u8)
        ensures r == self.elevation_number
    {
        self.elevation_number
    }
}

struct Sweep {
    elevation_number: u8,
    radials: Vec<Radial>,
}

spec fn flat(s: Seq<Sweep>) -> Seq<Radial>
    decreases s.len()
{
    if s.len() == 0 { Seq::empty() } else { flat(s.drop_last()) + s.last().radials@ }
}

broadcast proof fn flat_push(s: Seq<Sweep>, x: Sweep)
    ensures #[trigger] flat(s.push(x)) == flat(s) + x.radials@
{
    assert(s.push(x).drop_last() == s);
}

impl Sweep {
    fn new(elevation_number: u8, radials: Vec<Radial>) -> (r: Self)
        ensures r.elevation_number == elevation_number, r.radials == radials
    {
        Self {
            elevation_number,
            radials,
        }
    }

    fn from_radials(radials: Vec<Radial>) -> (sweeps: Vec<Self>)
        ensures flat(sweeps@) == radials@
    {
        let ghost input = radials@;
        broadcast use flat_push;
        let mut sweeps = Vec::new();

        let mut sweep_elevation_number = None;
        let mut sweep_radials = Vec::new();

        for radial in it: radials
            invariant
                it.snapshot@.remaining() == input,
                flat(sweeps@) + sweep_radials@ =~= it.history@,
                sweep_elevation_number is None ==> sweep_radials@.len() == 0,
        {
            broadcast use flat_push;
            if let Some(elevation_number) = sweep_elevation_number {
                if elevation_number != radial.elevation_number() {
                    sweeps.push(Sweep::new(elevation_number, sweep_radials));
                    sweep_radials = Vec::new();
                }
            }

            sweep_elevation_number = Some(radial.elevation_number());
            sweep_radials.push(radial);
        }

        if let Some(elevation_number) = sweep_elevation_number {
            sweeps.push(Sweep::new(elevation_number, sweep_radials));
        }
        sweeps
    }
}

} // verus!
fn main() {}
