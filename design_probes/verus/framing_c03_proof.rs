use vstd::prelude::*;
use std::io::{Read, Seek};
verus! {

// ---------------- prelude (spec only) ----------------
pub uninterp spec fn remaining<R: ?Sized>(r: &R) -> Seq<u8>;

#[verifier::external_type_specification]
#[verifier::external_body]
pub struct ExIoError(std::io::Error);

#[verifier::external_trait_specification]
pub trait ExRead {
    type ExternalTraitSpecificationFor: std::io::Read;
    fn read_exact(&mut self, buf: &mut [u8]) -> (res: std::io::Result<()>)
        ensures
            match res {
                Ok(v) => remaining(old(self)).len() >= old(buf)@.len()
                    && final(buf)@ == remaining(old(self)).take(old(buf)@.len() as int)
                    && remaining(final(self)) == remaining(old(self)).skip(old(buf)@.len() as int),
                Err(_) => remaining(old(self)).len() < old(buf)@.len(),
            };
}
#[verifier::external_trait_specification]
pub trait ExSeek {
    type ExternalTraitSpecificationFor: std::io::Seek;
}

pub assume_specification<T, const N: usize> [<[T; N] as std::convert::AsRef<[T]>>::as_ref] (a: &[T; N]) -> (r: &[T])
    ensures r@ == a@;

// slice as reader: remaining of a `&[u8]` reader is its content
pub broadcast axiom fn slice_reader_remaining(r: &&[u8])
    ensures #[trigger] remaining(r) == (*r)@;

enum Error { FileError(std::io::Error), De }
type Result<T> = std::result::Result<T, Error>;
impl From<std::io::Error> for Error {
    #[verifier::external_body]
    fn from(e: std::io::Error) -> Error { Error::FileError(e) }
}

struct MessageHeader { message_type: u8, rest: [u8; 27] }
uninterp spec fn parse_header(b: Seq<u8>) -> MessageHeader;

#[derive(PartialEq, Eq, Clone, Copy, Structural)]
enum MessageType { RDAStatusData, RDAVolumeCoveragePattern, RDADigitalRadarDataGenericFormat, Unknown(u8) }
impl MessageHeader {
    #[verifier::external_body]
    fn message_type(&self) -> (r: MessageType)
        ensures r == spec_type(self.message_type)
    { unimplemented!() }
}
spec fn spec_type(c: u8) -> MessageType {
    if c == 2 { MessageType::RDAStatusData } else if c == 5 { MessageType::RDAVolumeCoveragePattern }
    else if c == 31 { MessageType::RDADigitalRadarDataGenericFormat } else { MessageType::Unknown(c) }
}

struct Rda { x: u8 }
struct Vcp { x: u8 }
struct Drd { x: u8 }
enum MessageContents { RDAStatusData(Box<Rda>), DigitalRadarData(Box<Drd>), VolumeCoveragePattern(Box<Vcp>), Other }
struct Message { header: MessageHeader, contents: MessageContents }
impl Message {
    fn unsegmented(header: MessageHeader, contents: MessageContents) -> (r: Self)
        ensures r.header == header, r.contents == contents
    { Self { header, contents } }
}

uninterp spec fn spec_rda(b: Seq<u8>) -> Option<Rda>;
uninterp spec fn spec_vcp(b: Seq<u8>) -> Option<Vcp>;
uninterp spec fn spec_drd(b: Seq<u8>) -> Option<(Drd, nat)>;   // value and bytes consumed

#[verifier::external_body]
fn decode_message_header<R: Read>(reader: &mut R) -> (res: Result<MessageHeader>)
    ensures match res {
        Ok(v) => remaining(old(reader)).len() >= 28 && v == parse_header(remaining(old(reader)).take(28))
            && remaining(final(reader)) == remaining(old(reader)).skip(28),
        Err(_) => remaining(old(reader)).len() < 28,
    }
{ unimplemented!() }

#[verifier::external_body]
fn decode_rda_status_message<R: Read>(reader: &mut R) -> (res: Result<Rda>)
    ensures match res { Ok(v) => spec_rda(remaining(old(reader))) == Some(v), Err(_) => spec_rda(remaining(old(reader))) is None }
{ unimplemented!() }
#[verifier::external_body]
fn decode_volume_coverage_pattern<R: Read>(reader: &mut R) -> (res: Result<Vcp>)
    ensures match res { Ok(v) => spec_vcp(remaining(old(reader))) == Some(v), Err(_) => spec_vcp(remaining(old(reader))) is None }
{ unimplemented!() }
#[verifier::external_body]
fn decode_digital_radar_data<R: Read + Seek>(reader: &mut R) -> (res: Result<Drd>)
    ensures match res {
        Ok(v) => spec_drd(remaining(old(reader))) matches Some(p) && p.0 == v && p.1 <= remaining(old(reader)).len()
            && remaining(final(reader)) == remaining(old(reader)).skip(p.1 as int),
        Err(_) => spec_drd(remaining(old(reader))) is None,
    }
{ unimplemented!() }

// ---------------- the property's spec ----------------
spec fn spec_contents(ty: MessageType, b: Seq<u8>) -> Option<(MessageContents, nat)> {
    if ty == MessageType::RDADigitalRadarDataGenericFormat {
        match spec_drd(b) { Some(p) => Some((MessageContents::DigitalRadarData(Box::new(p.0)), p.1)), None => None }
    } else if b.len() < 2404 {
        None
    } else if ty == MessageType::RDAStatusData {
        match spec_rda(b.take(2404)) { Some(v) => Some((MessageContents::RDAStatusData(Box::new(v)), 2404nat)), None => None }
    } else if ty == MessageType::RDAVolumeCoveragePattern {
        match spec_vcp(b.take(2404)) { Some(v) => Some((MessageContents::VolumeCoveragePattern(Box::new(v)), 2404nat)), None => None }
    } else {
        Some((MessageContents::Other, 2404nat))
    }
}

spec fn spec_stream(b: Seq<u8>) -> Option<Seq<Message>>
    decreases b.len()
{
    if b.len() < 28 { Some(Seq::empty()) } else {
        let h = parse_header(b.take(28));
        match spec_contents(spec_type(h.message_type), b.skip(28)) {
            None => None,
            Some(p) => if p.1 <= b.skip(28).len() {
                match spec_stream(b.skip(28).skip(p.1 as int)) {
                    None => None,
                    Some(rest) => Some(seq![Message { header: h, contents: p.0 }] + rest),
                }
            } else { None }
        }
    }
}

spec fn prepend(ms: Seq<Message>, tail: Option<Seq<Message>>) -> Option<Seq<Message>> {
    match tail { Some(t) => Some(ms + t), None => None }
}

// ---------------- extracted code (verbatim modulo R-log, R-vis) ----------------
fn decode_messages<R: Read + Seek>(reader: &mut R) -> (res: Result<Vec<Message>>)
    ensures match res {
        Ok(v) => spec_stream(remaining(old(reader))) == Some(v@),
        Err(_) => spec_stream(remaining(old(reader))) is None,
    }
{
    let ghost start = remaining(reader);
    let ghost mut cur = start;
    proof { lemma_prepend_empty(spec_stream(start)); }
    let mut messages = Vec::new();
    while let Ok(header) = decode_message_header(reader)
        invariant_except_break
            cur == remaining(reader),
        invariant
            start == remaining(old(reader)),
            spec_stream(start) == prepend(messages@, spec_stream(cur)),
        ensures
            cur.len() < 28,
        decreases remaining(reader).len()
    {
        let ghost msgs0 = messages@;
        let ghost body = remaining(reader);
        assert(body == cur.skip(28));
        assert(spec_contents(spec_type(header.message_type), body) is None ==> spec_stream(cur) is None);
        let contents = decode_message_contents(reader, header.message_type())?;
        messages.push(Message::unsegmented(header, contents));
        proof {
            let p = spec_contents(spec_type(header.message_type), body).unwrap();
            let m = Message { header, contents };
            let tail = spec_stream(body.skip(p.1 as int));
            assert(spec_stream(cur) == prepend(seq![m], tail));
            lemma_prepend_assoc(msgs0, m, tail);
            cur = remaining(reader);
        }
    }

    Ok(messages)
}

proof fn lemma_prepend_assoc(ms: Seq<Message>, m: Message, t: Option<Seq<Message>>)
    ensures prepend(ms, prepend(seq![m], t)) == prepend(ms.push(m), t)
{
    match t { Some(x) => { assert(ms + (seq![m] + x) =~= ms.push(m) + x); }, None => {} }
}

proof fn lemma_prepend_empty(t: Option<Seq<Message>>)
    ensures prepend(Seq::empty(), t) == t
{
    match t { Some(x) => { assert(Seq::<Message>::empty() + x =~= x); }, None => {} }
}

fn decode_message_contents<R: Read + Seek>(
    reader: &mut R,
    message_type: MessageType,
) -> (res: Result<MessageContents>)
    ensures match res {
        Ok(c) => spec_contents(message_type, remaining(old(reader))) matches Some(p) && p.0 == c
            && p.1 <= remaining(old(reader)).len()
            && remaining(final(reader)) == remaining(old(reader)).skip(p.1 as int),
        Err(_) => spec_contents(message_type, remaining(old(reader))) is None,
    }
{
    broadcast use slice_reader_remaining;
    if message_type == MessageType::RDADigitalRadarDataGenericFormat {
        let radar_data_message = decode_digital_radar_data(reader)?;
        return Ok(MessageContents::DigitalRadarData(Box::new(
            radar_data_message,
        )));
    }

    let mut message_buffer = [0; 2432 - 28];
    reader.read_exact(&mut message_buffer)?;

    let contents_reader = &mut message_buffer.as_ref();
    Ok(match message_type {
        MessageType::RDAStatusData => {
            MessageContents::RDAStatusData(Box::new(decode_rda_status_message(contents_reader)?))
        }
        MessageType::RDAVolumeCoveragePattern => MessageContents::VolumeCoveragePattern(Box::new(
            decode_volume_coverage_pattern(contents_reader)?,
        )),
        _ => MessageContents::Other,
    })
}

} // verus!
fn main() {}
