use vstd::prelude::*;
verus! {

enum Error { Missing, X }
type Result<T> = std::result::Result<T, Error>;

struct VolumeDataBlock { volume_coverage_pattern_number: u16 }
struct DrdMessage { volume_data_block: Option<VolumeDataBlock>, elevation_number: u8 }
struct Radial { elevation_number: u8 }
impl DrdMessage {
    #[verifier::external_body]
    fn into_radial(self) -> (r: Result<Radial>) { unimplemented!() }
}
enum MessageContents { DigitalRadarData(Box<DrdMessage>), Other }
struct Message { contents: MessageContents }
impl Message {
    fn into_contents(self) -> MessageContents { self.contents }
}

enum RecordData<'a> { Borrowed(&'a [u8]), Owned(Vec<u8>) }
struct Record<'a>(RecordData<'a>);
impl<'a> Record<'a> {
    #[verifier::external_body]
    fn compressed(&self) -> bool { unimplemented!() }
    #[verifier::external_body]
    fn decompress<'b>(&self) -> Result<Record<'b>> { unimplemented!() }
    #[verifier::external_body]
    fn messages(&self) -> Result<Vec<Message>> { unimplemented!() }
}
struct Sweep { e: u8, radials: Vec<Radial> }
impl Sweep {
    #[verifier::external_body]
    fn from_radials(radials: Vec<Radial>) -> Vec<Self> { unimplemented!() }
}
struct Scan { n: u16, sweeps: Vec<Sweep> }
impl Scan { fn new(n: u16, sweeps: Vec<Sweep>) -> Self { Self { n, sweeps } } }

struct File(Vec<u8>);
impl File {
    #[verifier::external_body]
    fn records(&self) -> Vec<Record> { unimplemented!() }

    fn scan(&self) -> Result<Scan> {
        let mut coverage_pattern_number = None;
        let mut radials = Vec::new();
        for mut record in self.records() {
            if record.compressed() {
                record = record.decompress()?;
            }

            let messages = record.messages()?;
            for message in messages {
                let contents = message.into_contents();
                if let MessageContents::DigitalRadarData(radar_data_message) = contents {
                    if coverage_pattern_number.is_none() {
                        if let Some(volume_block) = &radar_data_message.volume_data_block {
                            coverage_pattern_number =
                                Some(volume_block.volume_coverage_pattern_number);
                        }
                    }

                    radials.push(radar_data_message.into_radial()?);
                }
            }
        }

        Ok(Scan::new(
            coverage_pattern_number.ok_or(Error::Missing)?,
            Sweep::from_radials(radials),
        ))
    }
}

} // verus!
fn main() {}
