use vstd::prelude::*;
verus! {

struct Radial { azimuth_number: u16, elevation_number: u8 }
impl Radial {
    fn azimuth_number(&self) -> (r: u16) ensures r == self.azimuth_number { self.azimuth_number }
}
enum Error { ElevationMismatchError }
type Result<T> = std::result::Result<T, Error>;

struct Sweep { elevation_number: u8, radials: Vec<Radial> }

impl Sweep {
    fn merge(self, other: Self) -> Result<Self> {
        if self.elevation_number != other.elevation_number {
            return Err(Error::ElevationMismatchError);
        }

        let mut radials = self.radials;
        radials.extend(other.radials);
        radials.sort_by_key(|radial| radial.azimuth_number());

        Ok(Self {
            elevation_number: self.elevation_number,
            radials,
        })
    }
}

} // verus!
fn main() {}
