#![feature(allocator_api)]
use vstd::prelude::*;
use std::collections::VecDeque;
verus! {

pub assume_specification<T, A: core::alloc::Allocator> [ VecDeque::<T, A>::is_empty ] (v: &VecDeque<T, A>) -> (r: bool)
    ensures r == (v@.len() == 0);
pub enum Error { X }
type Result<T> = std::result::Result<T, Error>;
type V = u64;

fn should_search_right(first: Option<&V>, value: Option<&V>, target: Option<&V>) -> bool
{
    let first_wrapped = first > value;
    let target_wrapped = target < first;

    if value < target {
        !first_wrapped || target_wrapped
    } else {
        first_wrapped && !target_wrapped
    }
}

fn search(
    element_count: usize,
    target: V,
    f: impl Fn(usize) -> Result<Option<V>>,
) -> Result<Option<usize>>
    requires forall|i: usize| i < element_count ==> f.requires((i,))
{
    if element_count == 0 {
        return Ok(None);
    }

    let some_target = Some(&target);
    let mut nearest = None;

    let mut first_value = f(0)?;
    let mut first_value_ref = first_value.as_ref();

    if first_value_ref == some_target {
        return Ok(Some(0));
    }

    let mut low = 0;
    let mut high = element_count;

    let mut queue = VecDeque::from([(0, element_count - 1)]);
    while !queue.is_empty() {
        if let Some((start, end)) = queue.pop_front() {
            if start > end {
                continue;
            }

            let mid = (start + end) / 2;
            let mid_value = f(mid)?;
            let mid_value_ref = mid_value.as_ref();

            if mid_value_ref.is_none() {
                queue.push_back((mid + 1, end));
                if mid > 0 {
                    queue.push_back((start, mid - 1));
                }
                continue;
            }

            if mid_value_ref <= some_target {
                nearest = Some(mid);
            }

            if mid_value_ref == some_target {
                return Ok(nearest);
            }

            if should_search_right(first_value_ref, mid_value_ref, some_target) {
                low = mid + 1;
            } else {
                high = mid;
            }
        }

        break;
    }

    Ok(nearest)
}

} // verus!
fn main() {}
