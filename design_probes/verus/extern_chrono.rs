use vstd::prelude::*;
verus! {

#[verifier::external_type_specification]
#[verifier::external_body]
pub struct ExDuration(chrono::Duration);

struct Stats { x: u64 }
impl Stats {
    #[verifier::external_body]
    fn get_average_attempts(&self, c: &u8) -> Option<f64> { unimplemented!() }
}

fn t(previous_sequence: usize, timing_stats: Option<&Stats>, characteristics: u8) -> i64 {
    if !((1..=55).contains(&previous_sequence)) {
        return 0;
    }
    let average_attempts =
        timing_stats.and_then(|stats| stats.get_average_attempts(&characteristics));
    if let Some(avg_attempts) = average_attempts {
        return avg_attempts as i64 - 1;
    }
    1
}

} // verus!
fn main() {}
