use vstd::prelude::*;
use std::io::Read;
verus! {

#[verifier::external_trait_specification]
pub trait ExRead {
    type ExternalTraitSpecificationFor: std::io::Read;
}

// ghost view of a reader: remaining bytes
pub uninterp spec fn remaining<R: Read>(r: &R) -> Seq<u8>;

pub trait Wire: Sized {
    spec fn wire_size() -> nat;
    spec fn parse(b: Seq<u8>) -> Self;
}

pub enum Error { Io, De }
type Result<T> = std::result::Result<T, Error>;

#[verifier::external_body]
fn deserialize<R: Read, S: Wire>(reader: &mut R) -> (res: Result<S>)
    ensures
        match res {
            Ok(v) => remaining(old(reader)).len() >= S::wire_size()
                && v == S::parse(remaining(old(reader)).take(S::wire_size() as int))
                && remaining(final(reader)) == remaining(old(reader)).skip(S::wire_size() as int),
            Err(_) => remaining(old(reader)).len() < S::wire_size(),
        }
{ unimplemented!() }

type Integer2 = u16;
type Code2 = u16;

pub struct AzimuthSegmentHeader { pub range_zone_count: Integer2 }
pub struct RangeZone { pub op_code: Code2, pub end_range: Integer2 }

impl Wire for AzimuthSegmentHeader {
    open spec fn wire_size() -> nat { 2 }
    uninterp spec fn parse(b: Seq<u8>) -> Self;
}
impl Wire for RangeZone {
    open spec fn wire_size() -> nat { 4 }
    uninterp spec fn parse(b: Seq<u8>) -> Self;
}

pub struct AzimuthSegment {
    pub header: AzimuthSegmentHeader,
    pub azimuth_segment: Integer2,
    pub range_zones: Vec<RangeZone>,
}

impl AzimuthSegment {
    fn new(header: AzimuthSegmentHeader, azimuth_segment: Integer2) -> (r: Self)
        ensures r.header == header, r.azimuth_segment == azimuth_segment, r.range_zones@.len() == 0
    {
        Self {
            range_zones: Vec::with_capacity(header.range_zone_count as usize),
            header,
            azimuth_segment,
        }
    }
}

fn one_azimuth<R: Read>(reader: &mut R, azimuth_number: u16) -> (res: Result<AzimuthSegment>)
    ensures match res {
        Ok(seg) => seg.range_zones@.len() == seg.header.range_zone_count && seg.azimuth_segment == azimuth_number,
        Err(_) => true,
    }
{
            let azimuth_segment_header: AzimuthSegmentHeader = deserialize(reader)?;
            let range_zone_count = azimuth_segment_header.range_zone_count as usize;

            let mut azimuth_segment = AzimuthSegment::new(azimuth_segment_header, azimuth_number);
            for _ in 0..range_zone_count {
                azimuth_segment.range_zones.push(deserialize(reader)?);
            }
            Ok(azimuth_segment)
}

} // verus!
fn main() {}
