use vstd::prelude::*;
use vstd::std_specs::iter::IteratorSpec;
verus! {

struct MomentData {
    scale: f32,
    offset: f32,
    values: Vec<u8>,
}

#[derive(Clone, Copy, PartialEq)]
enum MomentValue {
    Value(f32),
    BelowThreshold,
    RangeFolded,
}

impl MomentData {
    fn values(&self) -> (r: Vec<MomentValue>)
        ensures r@.len() == self.values@.len()
    {
        let copied_values = self.values.iter().copied();

        if self.scale == 0.0 {
            return copied_values
                .map(|raw_value| MomentValue::Value(raw_value as f32))
                .collect();
        }

        copied_values
            .map(|raw_value| match raw_value {
                0 => MomentValue::BelowThreshold,
                1 => MomentValue::RangeFolded,
                _ => MomentValue::Value((raw_value as f32 - self.offset) / self.scale),
            })
            .collect()
    }
}

} // verus!
fn main() {}
