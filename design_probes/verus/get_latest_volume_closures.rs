use vstd::prelude::*;
use std::sync::Arc;
use std::sync::atomic::AtomicI32;
use std::sync::atomic::Ordering::Relaxed;
verus! {

enum Error { X }
type Result<T> = std::result::Result<T, Error>;

type T = u64; // stands for DateTime<Utc>
const MAX_UTC: T = u64::MAX;

#[derive(Clone, Copy)]
struct VolumeIndex(usize);
impl VolumeIndex {
    fn new(index: usize) -> (r: Self)
        requires index <= 999
        ensures r.0 == index
    { Self(index) }
    fn as_number(&self) -> (r: usize) ensures r == self.0 { self.0 }
}
struct ChunkIdentifier { date_time: Option<T> }
impl ChunkIdentifier { fn date_time(&self) -> (r: Option<T>) ensures r == self.date_time { self.date_time } }

// abstract bucket: first-chunk upload time per directory 1..=999
uninterp spec fn bucket(site: &str, volume: int) -> Option<T>;

#[verifier::external_body]
fn list_chunks_in_volume(site: &str, volume: VolumeIndex, max_keys: usize) -> (r: Result<Vec<ChunkIdentifier>>)
    ensures r matches Ok(v) ==> (if v@.len() > 0 { v@[0].date_time == bucket(site, volume.0 as int) } else { bucket(site, volume.0 as int) is None })
{ unimplemented!() }

// contract of search (proved/assumed in the `search` unit): result is an index < element_count
// that maximises f over the probed array, or None when every entry is None
#[verifier::external_body]
fn search<F: Fn(usize) -> Result<Option<T>>>(element_count: usize, target: T, f: F) -> (r: Result<Option<usize>>)
    requires forall|i: usize| i < element_count ==> f.requires((i,)),
    ensures r matches Ok(o) ==> match o {
        Some(i) => i < element_count
            && (exists|v: T| f.ensures((i,), Ok(Some(v)))
                && forall|j: usize, w: T| j < element_count && #[trigger] f.ensures((j,), Ok(Some(w))) ==> w <= v),
        None => forall|j: usize, w: T| j < element_count ==> !#[trigger] f.ensures((j,), Ok(Some(w))),
    }
{ unimplemented!() }

struct LatestVolumeResult { volume: Option<VolumeIndex>, calls: usize }

fn get_latest_volume(site: &str) -> (res: Result<LatestVolumeResult>)
    ensures res matches Ok(r) ==> match r.volume {
        Some(v) => 1 <= v.0 <= 999 && bucket(site, v.0 as int) is Some
            && forall|d: int| 1 <= d <= 999 && (#[trigger] bucket(site, d)) is Some ==> bucket(site, d).unwrap() <= bucket(site, v.0 as int).unwrap(),
        None => forall|d: int| 1 <= d <= 999 ==> (#[trigger] bucket(site, d)) is None,
    }
{
    let latest_volume = search(998, MAX_UTC, |volume: usize| -> (r: Result<Option<T>>)
        requires volume < 999
        ensures r matches Ok(o) ==> o == bucket(site, volume as int + 1)
    {
        {
            let chunks = list_chunks_in_volume(site, VolumeIndex::new(volume + 1), 1)?;
            Ok(chunks.first().and_then(|chunk: &ChunkIdentifier| chunk.date_time()))
        }
    })
    .map(|volume: Option<usize>| volume.map(|index: usize| VolumeIndex::new(index + 1)))?;

    Ok(LatestVolumeResult {
        volume: latest_volume,
        calls: 0,
    })
}

} // verus!
fn main() {}
