use vstd::prelude::*;
use std::io::{Read, Seek};
verus! {

pub uninterp spec fn remaining<R: ?Sized>(r: &R) -> Seq<u8>;

#[verifier::external_type_specification]
#[verifier::external_body]
pub struct ExIoError(std::io::Error);

#[verifier::external_trait_specification]
pub trait ExRead {
    type ExternalTraitSpecificationFor: std::io::Read;
    fn read_exact(&mut self, buf: &mut [u8]) -> (res: std::io::Result<()>)
        ensures
            match res {
                Ok(v) => remaining(old(self)).len() >= old(buf)@.len()
                    && final(buf)@ == remaining(old(self)).take(old(buf)@.len() as int)
                    && remaining(final(self)) == remaining(old(self)).skip(old(buf)@.len() as int),
                Err(_) => remaining(old(self)).len() < old(buf)@.len(),
            };
}

pub enum Error { FileError(std::io::Error), De }
type Result<T> = std::result::Result<T, Error>;

impl From<std::io::Error> for Error {
    #[verifier::external_body]
    fn from(e: std::io::Error) -> Error { Error::FileError(e) }
}

fn contents<R: Read>(reader: &mut R, ty: u8) -> (res: Result<u8>)
    ensures match res {
        Ok(_) => remaining(old(reader)).len() >= 2404 && remaining(final(reader)) == remaining(old(reader)).skip(2404),
        Err(_) => remaining(old(reader)).len() < 2404,
    }
{
    let mut message_buffer = [0; 2432 - 28];
    reader.read_exact(&mut message_buffer)?;
    Ok(ty)
}

} // verus!
fn main() {}
