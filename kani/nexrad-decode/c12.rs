//! C12 — RDA status message: coded fields, flags, scaled values, alarm list (layout: wire_layout.rs;
//! alarm table: Verus unit `alarm_table`).  Oracle for "documented": the field documentation in
//! rda_status_data/message.rs (ICD Table IV values as written there).  Full 2^16 domain per field.
use crate::messages::rda_status_data::alarm;
use crate::messages::rda_status_data::*;

fn blank() -> Message {
    let b = [0u8; 120];
    let mut r: &[u8] = &b;
    decode_rda_status_message(&mut r).unwrap()
}

/// documented codes of the status / operability / control / aux-power words -> documented meaning
#[kani::proof]
fn c12_codes_status_words() {
    let mut m = blank();
    let c: u16 = kani::any();
    kani::assume(matches!(c, 2 | 4 | 8 | 16 | 32 | 64));
    kani::cover!(c == 64);
    m.rda_status = c;
    let want = match c { 2 => RDAStatus::StartUp, 4 => RDAStatus::Standby, 8 => RDAStatus::Restart, 16 => RDAStatus::Operate,
                         _ => RDAStatus::Spare };
    assert!(m.rda_status() == want);

    let c: u16 = kani::any();
    kani::assume(matches!(c, 2 | 4 | 8 | 16 | 32));
    m.operability_status = c;
    let want = match c { 2 => OperabilityStatus::OnLine, 4 => OperabilityStatus::MaintenanceActionRequired,
                         8 => OperabilityStatus::MaintenanceActionMandatory, 16 => OperabilityStatus::CommandedShutDown,
                         _ => OperabilityStatus::Inoperable };
    assert!(m.operability_status() == want);

    let c: u16 = kani::any();
    kani::assume(matches!(c, 2 | 4 | 8));
    m.control_status = c;
    let want = match c { 2 => ControlStatus::LocalControlOnly, 4 => ControlStatus::RemoteControlOnly,
                         _ => ControlStatus::EitherLocalOrRemoteControl };
    assert!(m.control_status() == want);

    let c: u16 = kani::any();
    kani::assume(matches!(c, 1 | 2 | 4 | 8 | 16));
    m.auxiliary_power_generator_state = c;
    let want = match c { 1 => AuxiliaryPowerGeneratorState::SwitchedToAuxiliaryPower, 2 => AuxiliaryPowerGeneratorState::UtilityPowerAvailable,
                         4 => AuxiliaryPowerGeneratorState::GeneratorOn, 8 => AuxiliaryPowerGeneratorState::TransferSwitchSetToManual,
                         _ => AuxiliaryPowerGeneratorState::CommandedSwitchover };
    assert!(m.auxiliary_power_generator_state() == want);
}

/// documented codes of authorization / mode / super-res / spot blanking / TPS / RMS / performance check / ack
#[kani::proof]
fn c12_codes_mode_words() {
    let mut m = blank();
    let c: u16 = kani::any();
    kani::assume(matches!(c, 0 | 2 | 4));
    kani::cover!(c == 4);
    m.rda_control_authorization = c;
    let want = match c { 0 => ControlAuthorization::NoAction, 2 => ControlAuthorization::LocalControlRequested,
                         _ => ControlAuthorization::RemoteControlRequested };
    assert!(m.rda_control_authorization() == want);

    let c: u16 = kani::any();
    kani::assume(matches!(c, 4 | 8));
    m.operational_mode = c;
    assert!(m.operational_mode() == if c == 4 { OperationalMode::Operational } else { OperationalMode::Maintenance });

    let c: u16 = kani::any();
    kani::assume(matches!(c, 2 | 4));
    m.super_resolution_status = c;
    assert!(m.super_resolution_status() == if c == 2 { SuperResolutionStatus::Enabled } else { SuperResolutionStatus::Disabled });

    let c: u16 = kani::any();
    kani::assume(matches!(c, 0 | 1 | 4));
    m.spot_blanking_status = c;
    let want = match c { 0 => SpotBlankingStatus::NotInstalled, 1 => SpotBlankingStatus::Enabled, _ => SpotBlankingStatus::Disabled };
    assert!(m.spot_blanking_status() == want);

    let c: u16 = kani::any();
    kani::assume(matches!(c, 0 | 1 | 3 | 4));
    m.transition_power_source_status = c;
    let want = match c { 0 => TransitionPowerSourceStatus::NotInstalled, 1 => TransitionPowerSourceStatus::Off,
                         3 => TransitionPowerSourceStatus::OK, _ => TransitionPowerSourceStatus::Unknown };
    assert!(m.transition_power_source_status() == want);

    let c: u16 = kani::any();
    kani::assume(matches!(c, 0 | 2 | 4));
    m.rms_control_status = c;
    let want = match c { 0 => RMSControlStatus::NonRMS, 2 => RMSControlStatus::RMSInControl, _ => RMSControlStatus::RDAInControl };
    assert!(m.rms_control_status() == want);

    let c: u16 = kani::any();
    kani::assume(matches!(c, 0 | 1 | 2));
    m.performance_check_status = c;
    let want = match c { 0 => PerformanceCheckStatus::NoCommandPending, 1 => PerformanceCheckStatus::ForcePerformanceCheckPending,
                         _ => PerformanceCheckStatus::InProgress };
    assert!(m.performance_check_status() == want);

    // command acknowledgement: total on all u16 (0 and undocumented => none)
    let c: u16 = kani::any();
    m.command_acknowledgement = c;
    let want = match c { 1 => Some(CommandAcknowledgement::RemoteVCPReceived), 2 => Some(CommandAcknowledgement::ClutterBypassMapReceived),
                         3 => Some(CommandAcknowledgement::ClutterCensorZonesReceived),
                         4 => Some(CommandAcknowledgement::RedundantChannelControlCommandAccepted), _ => None };
    assert!(m.command_acknowledgement() == want);

    // channel control status: 0 = controlling channel, 1 = non-controlling channel
    let c: u16 = kani::any();
    kani::assume(c <= 1);
    m.channel_control_status = c;
    assert!(m.controlling_channel() == (c == 0));
}

/// flag accessors depend on exactly their documented bit, for every value of the flag word
#[kani::proof]
fn c12_flags() {
    let mut m = blank();
    let w: u16 = kani::any();
    m.data_transmission_enabled = w;
    let d = m.data_transmission_enabled();
    // values as documented: 1 none, 2 reflectivity, 4 velocity, 8 spectrum width
    assert!(d.none() == (w & 1 != 0));
    assert!(d.reflectivity() == (w & 2 != 0));
    assert!(d.velocity() == (w & 4 != 0));
    assert!(d.spectrum_width() == (w & 8 != 0));

    let w: u16 = kani::any();
    m.rda_scan_and_data_flags = w;
    let f = m.rda_scan_and_data_flags();
    // 2 (bit 1) AVSET enabled, 8 (bit 3) EBC, 16 (bit 4) RDA log data, 32 (bit 5) time series recording
    assert!(f.avset_enabled() == (w & 2 != 0));
    assert!(f.ebc_enabled() == (w & 8 != 0));
    assert!(f.rda_log_data_enabled() == (w & 16 != 0));
    assert!(f.time_series_data_recording_enabled() == (w & 32 != 0));

    let w: u16 = kani::any();
    m.rda_alarm_summary = w;
    let s = m.rda_alarm_summary();
    // 0 none; 1 tower/utilities, 2 pedestal, 4 transmitter, 8 receiver, 16 RDA control, 32 communication, 64 signal processor
    assert!(s.none() == (w == 0));
    assert!(s.tower_utilities() == (w & 1 != 0));
    assert!(s.pedestal() == (w & 2 != 0));
    assert!(s.transmitter() == (w & 4 != 0));
    assert!(s.receiver() == (w & 8 != 0));
    assert!(s.rda_control() == (w & 16 != 0));
    assert!(s.communication() == (w & 32 != 0));
    assert!(s.signal_processor() == (w & 64 != 0));
}

/// scaled values, build-number rule, VCP sign/magnitude
#[kani::proof]
fn c12_scaled() {
    let mut m = blank();
    let r: u16 = kani::any();
    m.horizontal_reflectivity_calibration_correction = r;
    assert!(m.horizontal_reflectivity_calibration_correction() == r as f32 / 100.0);
    let b: u16 = kani::any();
    m.rda_build_number = b;
    let n = b as f32;
    let want = if n / 100.0 > 2.0 { n / 100.0 } else { n / 10.0 };
    assert!(m.rda_build_number() == want);
    let v: i16 = kani::any();
    kani::assume(v != i16::MIN); // |i16::MIN| is not representable and is no documented VCP number
    kani::cover!(v < 0);
    m.volume_coverage_pattern = v;
    match m.volume_coverage_pattern() {
        None => assert!(v == 0),
        Some(p) => {
            assert!(v != 0);
            assert!(p.number() == if v < 0 { -v } else { v });
            assert!(p.local() == (v < 0));
            assert!(p.remote() == (v > 0));
        }
    }
}

/// clutter mitigation decision status: 0 disabled, 1 enabled, bits 1..=5 => bypass-map elevation segments 1..=5
#[kani::proof]
#[kani::unwind(7)]
fn c12_cmd_status() {
    let mut m = blank();
    let c: u16 = kani::any();
    kani::assume(matches!(c, 0 | 1 | 2 | 4 | 8 | 16 | 32));
    kani::cover!(c == 32);
    m.clutter_mitigation_decision_status = c;
    match m.clutter_mitigation_decision_status() {
        ClutterMitigationDecisionStatus::Disabled => assert!(c == 0),
        ClutterMitigationDecisionStatus::Enabled => assert!(c == 1),
        ClutterMitigationDecisionStatus::BypassMapElevationSegments(v) => {
            assert!(c >= 2);
            assert!(v.len() == 1);
            assert!(1u16 << v[0] == c);
        }
    }
}

/// ASSUMED here, PROVED by the Verus unit `alarm_table` on the real 2374-line match: for every u16 code,
/// `get_alarm_message` returns a definition carrying that code for 0..=800 and nothing above.
fn alarm_contract_stub(code: u16) -> Option<alarm::Message> {
    if code <= 800 { Some(alarm::Message::new(code, None, None, None, None, "")) } else { None }
}

/// a status message lists the definitions of its non-zero alarm codes in message order.
/// BOUNDED: six of the 14 slots are symbolic (first four, one in the middle, the last), the rest are zero —
/// with all 14 symbolic CBMC does not finish in 15 min (Vec growth under filter/filter_map/collect).
#[kani::proof]
#[kani::stub(crate::messages::rda_status_data::alarm::get_alarm_message, alarm_contract_stub)]
#[kani::unwind(16)]
fn c12_alarm_list() {
    let mut m = blank();
    let mut codes = [0u16; 14];
    codes[0] = kani::any();
    codes[1] = kani::any();
    codes[2] = kani::any();
    codes[3] = kani::any();
    codes[8] = kani::any();
    codes[13] = kani::any();
    m.alarm_codes = codes;
    let out = m.alarm_messages();
    let mut k = 0usize;
    for i in 0..14 {
        if codes[i] != 0 && codes[i] <= 800 {
            assert!(k < out.len());
            assert!(out[k].code() == codes[i]);
            k += 1;
        }
    }
    assert!(k == out.len());
}

/// quick-tier size of `c12_alarm_list`: three symbolic slots (first, second, last)
#[kani::proof]
#[kani::stub(crate::messages::rda_status_data::alarm::get_alarm_message, alarm_contract_stub)]
#[kani::unwind(16)]
fn c12_alarm_list_3() {
    let mut m = blank();
    let mut codes = [0u16; 14];
    codes[0] = kani::any();
    codes[1] = kani::any();
    codes[13] = kani::any();
    m.alarm_codes = codes;
    let out = m.alarm_messages();
    let mut k = 0usize;
    for i in 0..14 {
        if codes[i] != 0 && codes[i] <= 800 {
            assert!(k < out.len());
            assert!(out[k].code() == codes[i]);
            k += 1;
        }
    }
    assert!(k == out.len());
}
