//! C13 — clutter filter map: op codes (structure: Verus unit cfm_decode; layouts: wire_layout.rs; date: c08)
use crate::messages::clutter_filter_map::*;

/// op codes 0, 1, 2 mean bypass filter, bypass map in control, force filter
#[kani::proof]
fn c13_op_code() {
    let mut b = [0u8; 4];
    let c: u16 = kani::any();
    kani::assume(c <= 2);
    kani::cover!(c == 2);
    b[0..2].copy_from_slice(&c.to_be_bytes());
    let mut r: &[u8] = &b;
    let z: RangeZone = crate::util::deserialize(&mut r).unwrap();
    let want = match c { 0 => OpCode::BypassFilter, 1 => OpCode::BypassMapInControl, _ => OpCode::ForceFilter };
    assert!(z.op_code() == want);
}
