//! C02 — gate-buffer sizing (complete); layouts are in wire_layout.rs, routing in drd.rs.
use crate::messages::digital_radar_data::{GenericDataBlock, GenericDataBlockHeader};

/// GenericDataBlock::new sizes the gate buffer gates x (word_size / 8) for every u16 x u8
#[kani::proof]
fn c02_generic_block_new_len() {
    let gates: u16 = kani::any();
    let ws: u8 = kani::any();
    let mut hb = [0u8; 28];
    hb[8..10].copy_from_slice(&gates.to_be_bytes());
    hb[19] = ws;
    let mut r: &[u8] = &hb;
    let h: GenericDataBlockHeader = crate::util::deserialize(&mut r).unwrap();
    let b = GenericDataBlock::new(h);
    assert!(b.encoded_data.len() == gates as usize * (ws as usize / 8));
}
