//! C07 — radial model mapping and gate-value conversion.
//! `c07_radial_mapping`: complete in every header field and every moment's presence/scale/offset (loop-free
//! apart from 1-byte vectors).  `c07_values_*`: complete in raw value (all 256), scale, offset; BOUNDED in
//! gate count (<= 3), which only bounds std's map/collect.
use crate::messages::digital_radar_data::{
    GenericDataBlock, GenericDataBlockHeader, Header, Message, ScaledMomentValue,
};
use nexrad_model::data::{MomentData, MomentValue, RadialStatus as ModelStatus};

fn finite(x: f32) -> bool {
    x.is_finite()
}

fn block(gates: u16) -> GenericDataBlock {
    let scale: f32 = kani::any();
    block_with_scale(gates, scale)
}

fn block_with_scale(gates: u16, scale: f32) -> GenericDataBlock {
    let mut hb = [0u8; 28];
    hb[8..10].copy_from_slice(&gates.to_be_bytes());
    hb[19] = 8;
    let offset: f32 = kani::any();
    kani::assume(finite(scale) && finite(offset));
    hb[20..24].copy_from_slice(&scale.to_bits().to_be_bytes());
    hb[24..28].copy_from_slice(&offset.to_bits().to_be_bytes());
    let mut r: &[u8] = &hb;
    let h: GenericDataBlockHeader = crate::util::deserialize(&mut r).unwrap();
    let mut b = GenericDataBlock::new(h);
    let mut i = 0;
    while i < b.encoded_data.len() {
        b.encoded_data[i] = kani::any();
        i += 1;
    }
    b
}

fn opt_block() -> Option<GenericDataBlock> {
    // zero gates: the wiring is told apart by each block's own symbolic scale / offset (a Vec with contents per
    // block sends CBMC beyond 40 GB); the gate bytes are checked by c07_radial_moment_bytes
    if kani::any() { Some(block(0)) } else { None }
}

fn expect_moment(b: &Option<GenericDataBlock>) -> Option<MomentData> {
    b.as_ref().map(|b| MomentData::from_fixed_point(b.header.scale, b.header.offset, b.encoded_data.clone()))
}

use std::sync::atomic::{AtomicI64, AtomicU32, Ordering::Relaxed};
static SPY_DATE: AtomicU32 = AtomicU32::new(0);
static SPY_MS: AtomicI64 = AtomicI64::new(0);
/// recording stand-in for `get_datetime` (the real function is under contract in C08; `Header::date_time` is proved
/// to pass its own date and time fields in c08s.rs): returns a recognisable instant derived from its arguments
fn get_datetime_spy(d: u16, past_midnight: chrono::Duration) -> Option<chrono::DateTime<chrono::Utc>> {
    SPY_DATE.store(d as u32, Relaxed);
    SPY_MS.store(past_midnight.num_milliseconds(), Relaxed);
    chrono::DateTime::from_timestamp(777, 0)
}

/// header part of the mapping: for every 32-byte header (no moment blocks) the borrowing and the consuming
/// conversion agree and report exactly the message's fields (complete: loop-free over all header bytes); the
/// collection time is the epoch-millisecond value of the header's own date-time (callee spied, see above)
#[kani::proof]
#[kani::stub(crate::util::get_datetime, get_datetime_spy)]
fn c07_radial_header_mapping() {
    let hb: [u8; 32] = kani::any();
    let mut r: &[u8] = &hb;
    let header: Header = crate::util::deserialize(&mut r).unwrap();
    kani::assume(finite(header.azimuth_angle) && finite(header.elevation_angle));
    let m = Message::new(header);
    let a = m.radial();
    let b = m.clone().into_radial();
    assert!(a.is_ok() == b.is_ok());
    if let (Ok(a), Ok(b)) = (a, b) {
        assert!(a == b);
        let h = &m.header;
        assert!(a.azimuth_number() == h.azimuth_number);
        assert!(a.azimuth_angle_degrees().to_bits() == h.azimuth_angle.to_bits());
        assert!(a.elevation_number() == h.elevation_number);
        assert!(a.elevation_angle_degrees().to_bits() == h.elevation_angle.to_bits());
        assert!(a.azimuth_spacing_degrees() == h.azimuth_resolution_spacing as f32 * 0.5);
        // one-to-one status: ICD codes 0..=5 (nothing is demanded of undocumented codes)
        let want = match h.radial_status {
            0 => Some(ModelStatus::ElevationStart),
            1 => Some(ModelStatus::IntermediateRadialData),
            2 => Some(ModelStatus::ElevationEnd),
            3 => Some(ModelStatus::VolumeScanStart),
            4 => Some(ModelStatus::VolumeScanEnd),
            5 => Some(ModelStatus::ElevationStartVCPFinal),
            _ => None,
        };
        if let Some(w) = want {
            assert!(a.radial_status() == w);
        }
        assert!(a.collection_timestamp() == 777_000 && b.collection_timestamp() == 777_000);
        assert!(SPY_DATE.load(Relaxed) == h.date as u32 && SPY_MS.load(Relaxed) == h.time as i64);
        assert!(a.reflectivity().is_none() && a.velocity().is_none() && a.spectrum_width().is_none());
        assert!(a.differential_reflectivity().is_none() && a.differential_phase().is_none());
        assert!(a.correlation_coefficient().is_none() && a.specific_differential_phase().is_none());
    }
}

/// moment part of the mapping: every subset of the seven moment blocks (each with its own symbolic finite
/// scale / offset, so a crossed wiring is visible) over a fixed header: each model moment is built from its own
/// block; absent stays absent; both conversions agree
#[kani::proof]
#[kani::unwind(4)]
fn c07_radial_moment_wiring() {
    let mut hb = [0u8; 32];
    hb[9] = 1; // date = 1
    let mut r: &[u8] = &hb;
    let header: Header = crate::util::deserialize(&mut r).unwrap();
    let mut m = Message::new(header);
    m.reflectivity_data_block = opt_block();
    m.velocity_data_block = opt_block();
    m.spectrum_width_data_block = opt_block();
    m.differential_reflectivity_data_block = opt_block();
    m.differential_phase_data_block = opt_block();
    m.correlation_coefficient_data_block = opt_block();
    m.specific_diff_phase_data_block = opt_block();
    let a = m.radial().unwrap();
    let b = m.clone().into_radial().unwrap();
    assert!(a == b);
    assert!(a.reflectivity() == expect_moment(&m.reflectivity_data_block).as_ref());
    assert!(a.velocity() == expect_moment(&m.velocity_data_block).as_ref());
    assert!(a.spectrum_width() == expect_moment(&m.spectrum_width_data_block).as_ref());
    assert!(a.differential_reflectivity() == expect_moment(&m.differential_reflectivity_data_block).as_ref());
    assert!(a.differential_phase() == expect_moment(&m.differential_phase_data_block).as_ref());
    assert!(a.correlation_coefficient() == expect_moment(&m.correlation_coefficient_data_block).as_ref());
    assert!(a.specific_differential_phase() == expect_moment(&m.specific_diff_phase_data_block).as_ref());
    core::mem::forget(a);
    core::mem::forget(b);
    core::mem::forget(m);
}

/// the gate bytes of a moment are carried into the model radial unchanged by both conversions (2 symbolic gates)
#[kani::proof]
#[kani::unwind(4)]
fn c07_radial_moment_bytes() {
    let mut hb = [0u8; 32];
    hb[9] = 1; // date = 1
    let mut r: &[u8] = &hb;
    let header: Header = crate::util::deserialize(&mut r).unwrap();
    let mut m = Message::new(header);
    m.velocity_data_block = Some(block(2));
    let a = m.radial().unwrap();
    let b = m.clone().into_radial().unwrap();
    assert!(a.velocity() == expect_moment(&m.velocity_data_block).as_ref());
    assert!(b.velocity() == expect_moment(&m.velocity_data_block).as_ref());
    assert!(a.reflectivity().is_none() && b.reflectivity().is_none());
    core::mem::forget(a);
    core::mem::forget(b);
    core::mem::forget(m);
}

/// gate values, 8-bit words, a concrete gate count per harness (a symbolic Vec length is what makes CBMC time out):
/// raw 0 below threshold, raw 1 range folded, otherwise (raw - offset) / scale, or raw itself when scale is 0 —
/// identically (bit for bit) at the decode and the model level, exactly one value per gate
fn values_formula(gates: u16, scale: f32) {
    let b = block_with_scale(gates, scale);
    let scale = b.header.scale;
    let offset = b.header.offset;
    let d = b.decoded_values();
    let mv = b.moment_data().values();
    assert!(d.len() == gates as usize);
    assert!(mv.len() == gates as usize);
    let mut i = 0;
    while i < gates as usize {
        let raw = b.encoded_data[i];
        if scale != 0.0 {
            match raw {
                0 => { assert!(d[i] == ScaledMomentValue::BelowThreshold); assert!(mv[i] == MomentValue::BelowThreshold); }
                1 => { assert!(d[i] == ScaledMomentValue::RangeFolded); assert!(mv[i] == MomentValue::RangeFolded); }
                _ => {
                    let want = (raw as f32 - offset) / scale;
                    match d[i] { ScaledMomentValue::Value(v) => assert!(v.to_bits() == want.to_bits()), _ => assert!(false) }
                    match mv[i] { MomentValue::Value(v) => assert!(v.to_bits() == want.to_bits()), _ => assert!(false) }
                }
            }
        } else if raw >= 2 {
            match d[i] { ScaledMomentValue::Value(v) => assert!(v == raw as f32), _ => assert!(false) }
            match mv[i] { MomentValue::Value(v) => assert!(v == raw as f32), _ => assert!(false) }
        } else {
            // scale == 0 and raw in {0,1}: the statement can be read either way; the two levels must agree
            let same = match (d[i], mv[i]) {
                (ScaledMomentValue::Value(x), MomentValue::Value(y)) => x.to_bits() == y.to_bits(),
                (ScaledMomentValue::BelowThreshold, MomentValue::BelowThreshold) => true,
                (ScaledMomentValue::RangeFolded, MomentValue::RangeFolded) => true,
                _ => false,
            };
            assert!(same);
        }
        i += 1;
    }
    core::mem::forget(d);
    core::mem::forget(mv);
    core::mem::forget(b);
}

/// all finite scale / offset pairs, all 256 raw values (thorough tier: a fully symbolic f32 division takes long)
#[kani::proof]
#[kani::unwind(4)]
fn c07_values_formula_1gate() { values_formula(1, kani::any()); }

#[kani::proof]
#[kani::unwind(5)]
fn c07_values_formula_2gates() { values_formula(2, kani::any()); }

/// quick tier (1): the decode level and the model level agree bit for bit (variant by variant) for representative
/// scales (zero, a power of two, non-powers of two, a subnormal, a negative), every finite offset, all 256 raw values
#[kani::proof]
#[kani::unwind(4)]
fn c07_values_levels_agree() {
    let k: u8 = kani::any();
    let scale = match k % 6 { 0 => 0.0f32, 1 => 2.0, 2 => 300.0, 3 => 2.8361, 4 => 1.0e-39, _ => -0.5 };
    let b = block_with_scale(1, scale);
    let d = b.decoded_values();
    let mv = b.moment_data().values();
    assert!(d.len() == 1 && mv.len() == 1);
    let same = match (d[0], mv[0]) {
        (ScaledMomentValue::Value(x), MomentValue::Value(y)) => x.to_bits() == y.to_bits(),
        (ScaledMomentValue::BelowThreshold, MomentValue::BelowThreshold) => true,
        (ScaledMomentValue::RangeFolded, MomentValue::RangeFolded) => true,
        _ => false,
    };
    assert!(same);
    core::mem::forget(d);
    core::mem::forget(mv);
    core::mem::forget(b);
}

/// quick tier: the conversion formula at concrete (scale, offset) points at BOTH levels, all 256 raw values
#[kani::proof]
#[kani::unwind(4)]
fn c07_values_formula_points() {
    let k: u8 = kani::any();
    let (scale, offset) = match k % 5 { 0 => (2.0f32, 66.0f32), 1 => (300.0, -60.5), 2 => (2.8361, 2.0), 3 => (0.0, 5.0), _ => (0.5, 0.0) };
    let mut hb = [0u8; 28];
    hb[9] = 1;
    hb[19] = 8;
    hb[20..24].copy_from_slice(&scale.to_bits().to_be_bytes());
    hb[24..28].copy_from_slice(&offset.to_bits().to_be_bytes());
    let mut r: &[u8] = &hb;
    let h: GenericDataBlockHeader = crate::util::deserialize(&mut r).unwrap();
    let mut b = GenericDataBlock::new(h);
    let raw: u8 = kani::any();
    b.encoded_data[0] = raw;
    let d = b.decoded_values();
    let mv = b.moment_data().values();
    assert!(d.len() == 1 && mv.len() == 1);
    if scale != 0.0 {
        match raw {
            0 => assert!(d[0] == ScaledMomentValue::BelowThreshold && mv[0] == MomentValue::BelowThreshold),
            1 => assert!(d[0] == ScaledMomentValue::RangeFolded && mv[0] == MomentValue::RangeFolded),
            _ => {
                let want = ((raw as f32 - offset) / scale).to_bits();
                match d[0] { ScaledMomentValue::Value(v) => assert!(v.to_bits() == want), _ => assert!(false) }
                match mv[0] { MomentValue::Value(v) => assert!(v.to_bits() == want), _ => assert!(false) }
            }
        }
    } else if raw >= 2 {
        match d[0] { ScaledMomentValue::Value(v) => assert!(v == raw as f32), _ => assert!(false) }
        match mv[0] { MomentValue::Value(v) => assert!(v == raw as f32), _ => assert!(false) }
    }
    core::mem::forget(d);
    core::mem::forget(mv);
    core::mem::forget(b);
}

/// exactly one value per gate for 16-bit moments too (GenericDataBlock::new sizes the buffer gates x 2)
#[kani::proof]
#[kani::unwind(8)]
fn c07_values_one_per_gate_16bit() {
    let gates: u16 = 2;
    let mut hb = [0u8; 28];
    hb[8..10].copy_from_slice(&gates.to_be_bytes());
    hb[19] = 16;
    let mut r: &[u8] = &hb;
    let h: GenericDataBlockHeader = crate::util::deserialize(&mut r).unwrap();
    let b = GenericDataBlock::new(h);
    assert!(b.encoded_data.len() == gates as usize * 2);
    assert!(b.decoded_values().len() == gates as usize);
    assert!(b.moment_data().values().len() == gates as usize);
}

