//! C03 / C04 / C11 / C13 paired witness harnesses (BOUNDED) on the real decoders through the in-harness slice
//! reader (see drd.rs): the unbounded statements are the Verus units framing / vcp_decode / cfm_decode.
use super::drd::SliceReader;
use crate::messages::{decode_messages, MessageContents, MessageType};

fn frame(buf: &mut [u8], at: usize, ty: u8) {
    buf[at + 15] = ty;
}

/// two whole 2432-byte frames of fixed-length types without a decoder (3 and 15; one of them chosen symbolically):
/// two messages, in order, headers intact, each an opaque placeholder occupying exactly one frame.
/// (With fully symbolic type codes — which pulls the RDA-status and VCP decoders into every path — CBMC did not
/// finish in 15 min; the statement for all 256 codes is the Verus unit `framing`.)
#[kani::proof]
#[kani::unwind(4)]
fn w03_two_frames() {
    let mut buf = [0u8; 2 * 2432];
    let pick: bool = kani::any();
    let t1: u8 = if pick { 3 } else { 15 };
    let t2: u8 = if pick { 15 } else { 3 };
    frame(&mut buf, 0, t1);
    frame(&mut buf, 2432, t2);
    buf[16] = 7; // sequence numbers tell the two headers apart
    buf[2432 + 16] = 9;
    let mut c = SliceReader { buf: &buf[..], pos: 0 };
    let ms = decode_messages(&mut c).unwrap();
    assert!(ms.len() == 2);
    assert!(ms[0].header().message_type == t1 && ms[1].header().message_type == t2);
    assert!(ms[0].header().sequence_number == 7 * 256 && ms[1].header().sequence_number == 9 * 256);
    let opaque = |t: u8, m: &MessageContents| -> bool {
        match m {
            MessageContents::Other => t != 2 && t != 5,
            MessageContents::RDAStatusData(_) => t == 2,
            MessageContents::VolumeCoveragePattern(_) => t == 5,
            _ => false,
        }
    };
    assert!(opaque(t1, ms[0].contents()) && opaque(t2, ms[1].contents()));
    assert!(c.pos == 2 * 2432);
    core::mem::forget(ms);
}

/// a stream cut inside a fixed-length body (0, 1 or 2403 of the 2404 body bytes present) is an error; a trailing
/// fragment shorter than a header (1 or 27 bytes) after a whole frame is ignored
#[kani::proof]
#[kani::unwind(4)]
fn w03_truncation() {
    let mut buf = [0u8; 2432 + 27];
    let t: u8 = 3;
    frame(&mut buf, 0, t);
    let cuts = [28usize, 29, 2431];
    let mut i = 0;
    while i < 3 {
        let mut c = SliceReader { buf: &buf[..cuts[i]], pos: 0 };
        let r = decode_messages(&mut c);
        assert!(r.is_err());
        core::mem::forget(r);
        i += 1;
    }
    let tails = [2432usize + 1, 2432 + 27];
    let mut i = 0;
    while i < 2 {
        let mut c = SliceReader { buf: &buf[..tails[i]], pos: 0 };
        let r = decode_messages(&mut c);
        match &r {
            Ok(ms) => assert!(ms.len() == 1),
            Err(_) => assert!(false),
        }
        core::mem::forget(r);
        i += 1;
    }
}

/// VCP decoder: exactly the declared number of cut blocks (<= 2 fit the 114-byte buffer), each from its own
/// 46-byte window; a declared count that does not fit is an error
#[kani::proof]
#[kani::unwind(5)]
fn w11_vcp_cuts() {
    let bytes: [u8; 22 + 2 * 46] = kani::any();
    let n = u16::from_be_bytes([bytes[6], bytes[7]]);
    let mut c = SliceReader { buf: &bytes[..], pos: 0 };
    let r = crate::messages::volume_coverage_pattern::decode_volume_coverage_pattern(&mut c);
    match &r {
        Ok(m) => {
            assert!(n <= 2);
            assert!(m.elevations.len() == n as usize);
            assert!(m.header.number_of_elevation_cuts == n);
            if n >= 1 {
                assert!(m.elevations[0].elevation_angle == u16::from_be_bytes([bytes[22], bytes[23]]));
                assert!(m.elevations[0].reserved == u16::from_be_bytes([bytes[22 + 44], bytes[22 + 45]]));
            }
            if n == 2 {
                assert!(m.elevations[1].elevation_angle == u16::from_be_bytes([bytes[68], bytes[69]]));
            }
            assert!(c.pos == 22 + 46 * n as u64);
        }
        Err(_) => assert!(n > 2),
    }
    core::mem::forget(r);
}

// (no witness for decode_clutter_filter_map: its 360-iteration azimuth loop needs an unwinding bound of 361, and CBMC
// unrolls the recursive drop glue of result::Error to that depth at every `?` — infeasible; the Verus unit stands alone)
