//! C08 — ICD date/time fields decode to the exact UTC instant.
//! `get_datetime` carries an injected Kani function contract (kani/contracts.py) proved for the full domain
//! by `c08_get_datetime_contract`; every accessor is proved to call it with its own date field and its time
//! field in the right unit, so the closed form holds for every accessor (modular argument; `stub_verified`
//! cannot be used because `Option<DateTime<Utc>>` has no `kani::Arbitrary`).  chrono is executed, not assumed.
use crate::util::get_datetime;
use chrono::Duration;

/// full domain: every day count 1..=65535, every millisecond of the day
#[kani::proof_for_contract(get_datetime)]
#[kani::solver(kissat)]
fn c08_get_datetime_contract() {
    let d: u16 = kani::any();
    let t: u32 = kani::any();
    get_datetime(d, Duration::milliseconds(t as i64));
}

/// minutes domain (bypass-map / clutter-map generation times): same contract, minutes constructor
#[kani::proof_for_contract(get_datetime)]
#[kani::solver(kissat)]
fn c08_get_datetime_contract_minutes() {
    let d: u16 = kani::any();
    let t: u16 = kani::any();
    get_datetime(d, Duration::minutes(t as i64));
}

/// no-panic clause: any u16 day count with any u32 millisecond value / any u16 minute value returns
#[kani::proof]
fn c08_get_datetime_total() {
    let d: u16 = kani::any();
    let t: u32 = kani::any();
    let _ = get_datetime(d, Duration::milliseconds(t as i64));
    let m: u16 = kani::any();
    let _ = get_datetime(d, Duration::minutes(m as i64));
}

fn msg_header(date: u16, time: u32) -> crate::messages::message_header::MessageHeader {
    let mut b = [0u8; 28];
    b[18..20].copy_from_slice(&date.to_be_bytes());
    b[20..24].copy_from_slice(&time.to_be_bytes());
    let mut r: &[u8] = &b;
    crate::messages::decode_message_header(&mut r).unwrap()
}

/// MessageHeader::date_time == get_datetime(date, time ms) for all field values
#[kani::proof]
fn c08_accessor_message_header() {
    let d: u16 = kani::any();
    let t: u32 = kani::any();
    let h = msg_header(d, t);
    assert!(h.date_time() == get_datetime(d, Duration::milliseconds(t as i64)));
}

/// digital_radar_data::Header::date_time == get_datetime(date, time ms)
#[kani::proof]
fn c08_accessor_drd_header() {
    let d: u16 = kani::any();
    let t: u32 = kani::any();
    let mut b = [0u8; 32];
    b[4..8].copy_from_slice(&t.to_be_bytes());
    b[8..10].copy_from_slice(&d.to_be_bytes());
    let mut r: &[u8] = &b;
    let h: crate::messages::digital_radar_data::Header = crate::util::deserialize(&mut r).unwrap();
    assert!(h.date_time() == get_datetime(d, Duration::milliseconds(t as i64)));
}

/// clutter_filter_map::Header::date_time == get_datetime(date, time MINUTES)
#[kani::proof]
fn c08_accessor_cfm_header() {
    let d: u16 = kani::any();
    let t: u16 = kani::any();
    let mut b = [0u8; 6];
    b[0..2].copy_from_slice(&d.to_be_bytes());
    b[2..4].copy_from_slice(&t.to_be_bytes());
    let mut r: &[u8] = &b;
    let h: crate::messages::clutter_filter_map::Header = crate::util::deserialize(&mut r).unwrap();
    assert!(h.date_time() == get_datetime(d, Duration::minutes(t as i64)));
}

/// rda_status_data::Message generation date-times == get_datetime(own date, own time MINUTES)
#[kani::proof]
fn c08_accessor_rda_status() {
    let d1: u16 = kani::any();
    let t1: u16 = kani::any();
    let d2: u16 = kani::any();
    let t2: u16 = kani::any();
    let mut b = [0u8; 120];
    b[36..38].copy_from_slice(&d1.to_be_bytes()); // halfword 19: bypass map generation date
    b[38..40].copy_from_slice(&t1.to_be_bytes()); // halfword 20: bypass map generation time
    b[40..42].copy_from_slice(&d2.to_be_bytes()); // halfword 21: clutter filter map generation date
    b[42..44].copy_from_slice(&t2.to_be_bytes()); // halfword 22: clutter filter map generation time
    let mut r: &[u8] = &b;
    let m = crate::messages::rda_status_data::decode_rda_status_message(&mut r).unwrap();
    assert!(m.bypass_map_generation_date_time() == get_datetime(d1, Duration::minutes(t1 as i64)));
    assert!(m.clutter_filter_map_generation_date_time() == get_datetime(d2, Duration::minutes(t2 as i64)));
}
