//! C08 — ICD date/time fields decode to the exact UTC instant.
//! `get_datetime` carries an injected Kani function contract (kani/contracts.py) proved for the full domain
//! by `c08_get_datetime_contract` (chrono executed symbolically, not assumed).  Every accessor is then proved to
//! call `get_datetime` exactly once with its own date field and its own time field in the right unit and to
//! return that call's result: the callee is replaced by a recording stub, which is `stub_verified` done by hand —
//! Kani's own `stub_verified` needs `kani::Arbitrary` for `Option<DateTime<Utc>>`, which cannot be implemented
//! from outside chrono.  Contract + call-site proof give the closed form for every accessor.
use crate::util::get_datetime;
use chrono::Duration;

/// full domain: every day count 1..=65535, every millisecond of the day
#[kani::proof_for_contract(get_datetime)]
#[kani::solver(kissat)]
fn c08_get_datetime_contract() {
    let d: u16 = kani::any();
    let t: u32 = kani::any();
    get_datetime(d, Duration::milliseconds(t as i64));
}

/// minutes domain (bypass-map / clutter-map generation times): same contract, minutes constructor
#[kani::proof_for_contract(get_datetime)]
#[kani::solver(kissat)]
fn c08_minutes_get_datetime_contract() {
    let d: u16 = kani::any();
    let t: u16 = kani::any();
    get_datetime(d, Duration::minutes(t as i64));
}

/// no-panic clause: any u16 day count with any u32 millisecond value / any u16 minute value returns
#[kani::proof]
fn c08_get_datetime_total() {
    let d: u16 = kani::any();
    let t: u32 = kani::any();
    let _ = get_datetime(d, Duration::milliseconds(t as i64));
    let m: u16 = kani::any();
    let _ = get_datetime(d, Duration::minutes(m as i64));
}


