//! Type-31 (digital radar data) decoder harnesses: C02 routing (bounded), C04 totality (bounded), C03 consumed
//! length (bounded).  `decode_digital_radar_data` is generic in `R: Read + Seek`; it is instantiated with a
//! minimal in-harness reader that mirrors `Cursor<&[u8]>` (seek past the end allowed, reads there return 0
//! bytes, negative position is InvalidInput) but creates only `Simple` io errors — through `std::io::Cursor`
//! CBMC does not finish (io::Error drop-glue recursion).  ASSUMPTION: the decoder uses nothing of `R` but
//! the Read/Seek contract.
//!
//! All harnesses here are BOUNDED (concrete block structure, symbolic contents): labelled bounded in the
//! registry and never counted as proof.
use crate::messages::digital_radar_data::{decode_digital_radar_data, Message};
use std::io::{Error as IoError, ErrorKind, Read, Result as IoResult, Seek, SeekFrom};

pub struct SliceReader<'a> {
    pub buf: &'a [u8],
    pub pos: u64,
}

impl<'a> Read for SliceReader<'a> {
    fn read(&mut self, out: &mut [u8]) -> IoResult<usize> {
        let len = self.buf.len() as u64;
        let start = if self.pos < len { self.pos } else { len } as usize;
        let n = core::cmp::min(out.len(), self.buf.len() - start);
        out[..n].copy_from_slice(&self.buf[start..start + n]);
        self.pos += n as u64;
        Ok(n)
    }

    // like `<&[u8] as Read>::read_exact` and `Cursor::read_exact`: all or nothing, no retry loop (the default
    // implementation's loop + `Interrupted` handling puts an io::Error drop at every field read, which dominated
    // CBMC's symbolic execution: 189 drop-glue expansions for one 52-byte block)
    fn read_exact(&mut self, out: &mut [u8]) -> IoResult<()> {
        let len = self.buf.len() as u64;
        let start = if self.pos < len { self.pos } else { len } as usize;
        if self.buf.len() - start < out.len() {
            self.pos = len;
            return Err(IoError::from(ErrorKind::UnexpectedEof));
        }
        out.copy_from_slice(&self.buf[start..start + out.len()]);
        self.pos += out.len() as u64;
        Ok(())
    }
}

impl<'a> Seek for SliceReader<'a> {
    fn seek(&mut self, to: SeekFrom) -> IoResult<u64> {
        let np: i128 = match to {
            SeekFrom::Start(p) => p as i128,
            SeekFrom::Current(d) => self.pos as i128 + d as i128,
            SeekFrom::End(d) => self.buf.len() as i128 + d as i128,
        };
        if np < 0 || np > u64::MAX as i128 {
            return Err(IoError::from(ErrorKind::InvalidInput));
        }
        self.pos = np as u64;
        Ok(self.pos)
    }
}

/// ASSUMED contract of `alloc::fmt::format` on error paths: returns some String (formatting dominates CBMC cost)
pub fn format_stub(_args: core::fmt::Arguments<'_>) -> String {
    String::new()
}

const HDR: usize = 32;

/// makes the listed positions of a zero buffer symbolic (no loop: every extra unwinding step is paid at each `?`
/// of the decoder, because CBMC unrolls the recursive drop glue of `result::Error` to the same depth — measured:
/// unwind 18 turned a 60 s harness into a > 20 GB timeout).  Routing harnesses pin *which bytes end up in which
/// field*; that every byte of every struct lands in its field is the job of the complete layout harnesses.
macro_rules! sym {
    ($b:ident, $($i:expr),*) => { $( $b[$i] = kani::any(); )* };
}

fn be16(b: &[u8], o: usize) -> u16 {
    u16::from_be_bytes([b[o], b[o + 1]])
}

/// message with one block: header (block count 1), one pointer (= 36), block at 36
fn one_block(bytes: &mut [u8], name: &[u8; 3]) {
    bytes[30] = 0;
    bytes[31] = 1;
    bytes[32] = 0;
    bytes[33] = 0;
    bytes[34] = 0;
    bytes[35] = 36;
    bytes[37] = name[0];
    bytes[38] = name[1];
    bytes[39] = name[2];
}

fn others_absent(m: &Message, keep: usize) {
    assert!(keep == 0 || m.volume_data_block.is_none());
    assert!(keep == 1 || m.elevation_data_block.is_none());
    assert!(keep == 2 || m.radial_data_block.is_none());
    assert!(keep == 3 || m.reflectivity_data_block.is_none());
    assert!(keep == 4 || m.velocity_data_block.is_none());
    assert!(keep == 5 || m.spectrum_width_data_block.is_none());
    assert!(keep == 6 || m.differential_reflectivity_data_block.is_none());
    assert!(keep == 7 || m.differential_phase_data_block.is_none());
    assert!(keep == 8 || m.correlation_coefficient_data_block.is_none());
    assert!(keep == 9 || m.specific_diff_phase_data_block.is_none());
}

fn header_fields(m: &Message, b: &[u8]) {
    assert!(m.header.azimuth_number == be16(b, 10));
    assert!(m.header.elevation_number == b[22]);
    assert!(m.header.data_block_count == be16(b, 30));
}

#[kani::proof]
#[kani::unwind(5)]
fn drd_route_vol() {
    let mut bytes = [0u8; 36 + 52];
    sym!(bytes, 10, 11, 22, 36, 40, 41, 76, 77, 80, 81, 87);
    one_block(&mut bytes, b"VOL");
    let mut c = SliceReader { buf: &bytes[..], pos: 0 };
    let m = decode_digital_radar_data(&mut c).unwrap();
    header_fields(&m, &bytes);
    others_absent(&m, 0);
    let v = m.volume_data_block.as_ref().unwrap();
    assert!(v.data_block_id.data_block_type == bytes[36]);
    assert!(v.lrtup == be16(&bytes, 40));
    assert!(v.volume_coverage_pattern_number == be16(&bytes, 36 + 40));
    assert!(v.zdr_bias_estimate_weighted_mean == be16(&bytes, 36 + 44));
    assert!(v.spare[5] == bytes[36 + 51]);
    assert!(c.pos == 36 + 52); // C03: the reader ends right after the block
    core::mem::forget(m);
}

#[kani::proof]
#[kani::unwind(5)]
fn drd_route_elv() {
    let mut bytes = [0u8; 36 + 12];
    sym!(bytes, 10, 11, 22, 40, 41, 42, 43, 44, 45, 46, 47);
    one_block(&mut bytes, b"ELV");
    let mut c = SliceReader { buf: &bytes[..], pos: 0 };
    let m = decode_digital_radar_data(&mut c).unwrap();
    header_fields(&m, &bytes);
    others_absent(&m, 1);
    let v = m.elevation_data_block.as_ref().unwrap();
    assert!(v.lrtup == be16(&bytes, 40));
    assert!(v.atmos == i16::from_be_bytes([bytes[42], bytes[43]]));
    assert!(v.calibration_constant.to_bits() == u32::from_be_bytes([bytes[44], bytes[45], bytes[46], bytes[47]]));
    assert!(c.pos == 36 + 12);
    core::mem::forget(m);
}

#[kani::proof]
#[kani::unwind(5)]
fn drd_route_rad() {
    let mut bytes = [0u8; 36 + 28];
    sym!(bytes, 10, 11, 22, 40, 41, 42, 43, 54, 55, 60, 61, 62, 63);
    one_block(&mut bytes, b"RAD");
    let mut c = SliceReader { buf: &bytes[..], pos: 0 };
    let m = decode_digital_radar_data(&mut c).unwrap();
    header_fields(&m, &bytes);
    others_absent(&m, 2);
    let v = m.radial_data_block.as_ref().unwrap();
    assert!(v.lrtup == be16(&bytes, 40));
    assert!(v.unambiguous_range == be16(&bytes, 42));
    assert!(v.radial_flags == be16(&bytes, 36 + 18));
    assert!(v.vertical_channel_calibration_constant.to_bits()
        == u32::from_be_bytes([bytes[60], bytes[61], bytes[62], bytes[63]]));
    assert!(c.pos == 36 + 28);
    core::mem::forget(m);
}

/// one generic (moment) block with a concrete gate count and word size (a symbolic buffer length makes CBMC
/// use > 20 GB); the sizing rule itself is proved for all u16 x u8 by c02_generic_block_new_len
fn route_generic(name: &[u8; 3], which: usize, gates: u16, ws: u8) {
    let mut bytes = [0u8; 36 + 28 + 4];
    sym!(bytes, 10, 11, 22, 56, 57, 58, 59, 60, 61, 62, 63, 64, 65, 66, 67);
    one_block(&mut bytes, name);
    bytes[36 + 8..36 + 10].copy_from_slice(&gates.to_be_bytes());
    bytes[36 + 19] = ws;
    let mut c = SliceReader { buf: &bytes[..], pos: 0 };
    let m = decode_digital_radar_data(&mut c).unwrap();
    header_fields(&m, &bytes);
    others_absent(&m, which);
    let blk = match which {
        3 => m.reflectivity_data_block.as_ref(),
        4 => m.velocity_data_block.as_ref(),
        5 => m.spectrum_width_data_block.as_ref(),
        6 => m.differential_reflectivity_data_block.as_ref(),
        7 => m.differential_phase_data_block.as_ref(),
        8 => m.correlation_coefficient_data_block.as_ref(),
        _ => m.specific_diff_phase_data_block.as_ref(),
    }
    .unwrap();
    let n = gates as usize * (ws as usize / 8);
    assert!(blk.header.number_of_data_moment_gates == gates);
    assert!(blk.header.data_word_size == ws);
    assert!(blk.header.scale.to_bits() == u32::from_be_bytes([bytes[56], bytes[57], bytes[58], bytes[59]]));
    assert!(blk.header.offset.to_bits() == u32::from_be_bytes([bytes[60], bytes[61], bytes[62], bytes[63]]));
    // gate bytes intact and of length gates x word-bytes
    assert!(blk.encoded_data.len() == n);
    let mut i = 0;
    while i < 4 {
        if i < n {
            assert!(blk.encoded_data[i] == bytes[64 + i]);
        }
        i += 1;
    }
    assert!(c.pos == (64 + n) as u64);
    core::mem::forget(m);
}

#[kani::proof]
#[kani::unwind(5)]
fn drd_route_ref() { route_generic(b"REF", 3, 2, 8); }
#[kani::proof]
#[kani::unwind(5)]
fn drd_route_vel() { route_generic(b"VEL", 4, 1, 16); }
#[kani::proof]
#[kani::unwind(5)]
fn drd_route_sw() { route_generic(b"SW ", 5, 0, 8); }
#[kani::proof]
#[kani::unwind(5)]
fn drd_route_zdr() { route_generic(b"ZDR", 6, 2, 16); }
#[kani::proof]
#[kani::unwind(5)]
fn drd_route_phi() { route_generic(b"PHI", 7, 1, 8); }
#[kani::proof]
#[kani::unwind(5)]
fn drd_route_rho() { route_generic(b"RHO", 8, 3, 8); }
#[kani::proof]
#[kani::unwind(5)]
fn drd_route_cfp() { route_generic(b"CFP", 9, 2, 8); }

/// two blocks whose pointers are permuted relative to the layout and separated by a gap:
/// layout  [hdr 32][ptr0 ptr1][RAD @40..68][gap 4][ELV @72..84] ; pointer order: ELV first, then RAD
#[kani::proof]
#[kani::unwind(5)]
fn drd_two_blocks_permuted_gap() {
    let mut bytes = [0u8; 84];
    sym!(bytes, 44, 45, 58, 59, 76, 77, 78, 79);
    bytes[30] = 0;
    bytes[31] = 2;
    bytes[32..36].copy_from_slice(&72u32.to_be_bytes());
    bytes[36..40].copy_from_slice(&40u32.to_be_bytes());
    bytes[41] = b'R';
    bytes[42] = b'A';
    bytes[43] = b'D';
    bytes[73] = b'E';
    bytes[74] = b'L';
    bytes[75] = b'V';
    let mut c = SliceReader { buf: &bytes[..], pos: 0 };
    let m = decode_digital_radar_data(&mut c).unwrap();
    assert!(m.volume_data_block.is_none() && m.reflectivity_data_block.is_none());
    let r = m.radial_data_block.as_ref().unwrap();
    let e = m.elevation_data_block.as_ref().unwrap();
    assert!(r.lrtup == be16(&bytes, 44));
    assert!(r.radial_flags == be16(&bytes, 40 + 18));
    assert!(e.lrtup == be16(&bytes, 76));
    assert!(e.atmos == i16::from_be_bytes([bytes[78], bytes[79]]));
    // the reader ends after the last block *in pointer order* (RAD)
    assert!(c.pos == 68);
    core::mem::forget(m);
}

/// C04 (bounded): block count 0..=2 with fully symbolic pointers into an 80-byte buffer (backwards,
/// overlapping, out of range), symbolic names restricted to one symbolic byte per position (below), gates
/// and word size symbolic: value or error, never a panic
fn total_with_name(name: [u8; 3]) {
    let mut bytes: [u8; 80] = kani::any();
    kani::assume(bytes[30] == 0 && bytes[31] <= 2);
    // every place a block id can start gets the chosen name when the pointer lands there is not expressible
    // without fixing pointers; instead fix the first pointer to 40 and leave the second symbolic
    bytes[32..36].copy_from_slice(&40u32.to_be_bytes());
    bytes[41] = name[0];
    bytes[42] = name[1];
    bytes[43] = name[2];
    let mut c = SliceReader { buf: &bytes[..], pos: 0 };
    let r = decode_digital_radar_data(&mut c);
    if let Ok(m) = r {
        // radial conversion of whatever decoded successfully is total too
        let a = m.radial();
        let b = m.into_radial();
        assert!(a.is_ok() == b.is_ok());
        core::mem::forget(a);
        core::mem::forget(b);
    } else {
        core::mem::forget(r);
    }
}

#[kani::proof]
#[kani::unwind(8)]
#[kani::stub(alloc::fmt::format, format_stub)]
fn drd_total_name_byte0() {
    let x: u8 = kani::any();
    kani::assume(x < 128);
    total_with_name([x, b'E', b'F']);
}
#[kani::proof]
#[kani::unwind(8)]
#[kani::stub(alloc::fmt::format, format_stub)]
fn drd_total_name_byte1() {
    let x: u8 = kani::any();
    kani::assume(x < 128);
    total_with_name([b'R', x, b'F']);
}
#[kani::proof]
#[kani::unwind(8)]
#[kani::stub(alloc::fmt::format, format_stub)]
fn drd_total_name_byte2() {
    let x: u8 = kani::any();
    kani::assume(x < 128);
    total_with_name([b'R', b'E', x]);
}
#[kani::proof]
#[kani::unwind(8)]
#[kani::stub(alloc::fmt::format, format_stub)]
fn drd_total_name_xyz() { total_with_name(*b"XYZ"); }
#[kani::proof]
#[kani::unwind(8)]
#[kani::stub(alloc::fmt::format, format_stub)]
fn drd_total_name_nonutf8() { total_with_name([0xFF, 0xFF, 0xFF]); }

/// C04 (bounded): truncated type-31 message — every prefix length of a valid one-block (ELV) message
#[kani::proof]
#[kani::unwind(50)]
fn drd_total_truncated() {
    let mut bytes: [u8; 48] = kani::any();
    one_block(&mut bytes, b"ELV");
    let mut n = 0usize;
    while n < 48 {
        let mut c = SliceReader { buf: &bytes[..n], pos: 0 };
        let r = decode_digital_radar_data(&mut c);
        assert!(r.is_err());
        core::mem::forget(r);
        n += 1;
    }
}

/// C04 (bounded): block count 65535 with a short input is an error, not a crash or a huge allocation
#[kani::proof]
#[kani::unwind(5)]
fn drd_total_count_extreme() {
    let mut bytes: [u8; 40] = kani::any();
    bytes[30] = 0xFF;
    bytes[31] = 0xFF;
    let mut c = SliceReader { buf: &bytes[..], pos: 0 };
    let r = decode_digital_radar_data(&mut c);
    assert!(r.is_err());
    core::mem::forget(r);
}

/// C04 (bounded): a moment block that declares more gate bytes than the input holds (gates fully symbolic, word size
/// 8 or 16, only 4 data bytes present) is an error — never a hang, a panic, or an allocation beyond gates x 2 bytes
#[kani::proof]
#[kani::unwind(8)]
fn drd_total_gates_short() {
    let mut bytes: [u8; 36 + 28 + 4] = kani::any();
    one_block(&mut bytes, b"REF");
    let gates = be16(&bytes, 36 + 8);
    let ws = bytes[36 + 19];
    kani::assume(ws == 8 || ws == 16);
    kani::assume(gates as usize * (ws as usize / 8) > 4);
    let mut c = SliceReader { buf: &bytes[..], pos: 0 };
    let r = decode_digital_radar_data(&mut c);
    assert!(r.is_err());
    core::mem::forget(r);
}

// ---- quick routing checks: a message that is concrete except for ONE marker byte inside the block ------------
// (cheap: CBMC constant-propagates the rest; the fully/partly symbolic variants above are thorough-tier)

/// one generic block named `name` with 1 gate x 8 bit; marker = first byte of the block's `reserved` field and the
/// gate byte: the block must surface in slot `which` (and only there) carrying both markers
fn route_marker(name: &[u8; 3], which: usize) {
    let mut bytes = [0u8; 36 + 28 + 1];
    one_block(&mut bytes, name);
    bytes[36 + 9] = 1; // 1 gate
    bytes[36 + 19] = 8; // 8-bit words
    let marker: u8 = kani::any();
    bytes[36 + 4] = marker;
    bytes[64] = marker;
    let mut c = SliceReader { buf: &bytes[..], pos: 0 };
    let m = decode_digital_radar_data(&mut c).unwrap();
    others_absent(&m, which);
    let blk = match which {
        3 => m.reflectivity_data_block.as_ref(),
        4 => m.velocity_data_block.as_ref(),
        5 => m.spectrum_width_data_block.as_ref(),
        6 => m.differential_reflectivity_data_block.as_ref(),
        7 => m.differential_phase_data_block.as_ref(),
        8 => m.correlation_coefficient_data_block.as_ref(),
        _ => m.specific_diff_phase_data_block.as_ref(),
    }
    .unwrap();
    assert!(blk.header.reserved == (marker as u32) << 24);
    assert!(blk.encoded_data.len() == 1 && blk.encoded_data[0] == marker);
    assert!(c.pos == 65);
    core::mem::forget(m);
}

#[kani::proof]
#[kani::unwind(5)]
fn drd_marker_ref() { route_marker(b"REF", 3); }
#[kani::proof]
#[kani::unwind(5)]
fn drd_marker_vel() { route_marker(b"VEL", 4); }
#[kani::proof]
#[kani::unwind(5)]
fn drd_marker_sw() { route_marker(b"SW ", 5); }
#[kani::proof]
#[kani::unwind(5)]
fn drd_marker_zdr() { route_marker(b"ZDR", 6); }
#[kani::proof]
#[kani::unwind(5)]
fn drd_marker_phi() { route_marker(b"PHI", 7); }
#[kani::proof]
#[kani::unwind(5)]
fn drd_marker_rho() { route_marker(b"RHO", 8); }
#[kani::proof]
#[kani::unwind(5)]
fn drd_marker_cfp() { route_marker(b"CFP", 9); }

/// VOL block, concrete except a marker in the VCP number field
#[kani::proof]
#[kani::unwind(5)]
fn drd_marker_vol() {
    let mut bytes = [0u8; 36 + 52];
    one_block(&mut bytes, b"VOL");
    let marker: u8 = kani::any();
    bytes[36 + 41] = marker;
    let mut c = SliceReader { buf: &bytes[..], pos: 0 };
    let m = decode_digital_radar_data(&mut c).unwrap();
    others_absent(&m, 0);
    assert!(m.volume_data_block.as_ref().unwrap().volume_coverage_pattern_number == marker as u16);
    assert!(c.pos == 36 + 52);
    core::mem::forget(m);
}

// ---- quick C04 checks on the type-31 decoder: concrete structure, a handful of symbolic bytes -----------------

/// unknown block name: one name byte symbolic (any 7-bit value) at each of the three positions over the concrete
/// prefix "REF" (so every single-byte deviation from a known name is covered), 1 gate: value or error, never a panic
fn unknown_name(pos: usize) {
    let mut bytes = [0u8; 36 + 28 + 1];
    one_block(&mut bytes, b"REF");
    bytes[36 + 9] = 1;
    bytes[36 + 19] = 8;
    let x: u8 = kani::any();
    kani::assume(x < 128);
    bytes[37 + pos] = x;
    let mut c = SliceReader { buf: &bytes[..], pos: 0 };
    let r = decode_digital_radar_data(&mut c);
    if let Ok(m) = &r {
        // radial conversion of whatever decoded successfully is total too
        let a = m.radial();
        core::mem::forget(a);
    }
    core::mem::forget(r);
}
#[kani::proof]
#[kani::unwind(5)]
#[kani::stub(alloc::fmt::format, format_stub)]
fn drd_q_unknown_name_0() { unknown_name(0); }
#[kani::proof]
#[kani::unwind(5)]
#[kani::stub(alloc::fmt::format, format_stub)]
fn drd_q_unknown_name_1() { unknown_name(1); }
#[kani::proof]
#[kani::unwind(5)]
#[kani::stub(alloc::fmt::format, format_stub)]
fn drd_q_unknown_name_2() { unknown_name(2); }

/// symbolic pointer (any u32: backwards into the header, overlapping, far out of range) to a block in a concrete
/// 80-byte message: value or error, never a panic
#[kani::proof]
#[kani::unwind(5)]
#[kani::stub(alloc::fmt::format, format_stub)]
fn drd_q_pointer_any() {
    let mut bytes = [0u8; 80];
    one_block(&mut bytes, b"ELV");
    let p: u32 = kani::any();
    bytes[32..36].copy_from_slice(&p.to_be_bytes());
    let mut c = SliceReader { buf: &bytes[..], pos: 0 };
    let r = decode_digital_radar_data(&mut c);
    core::mem::forget(r);
}

/// truncation at the structural boundaries of a one-block (ELV) message: every cut is an error and decoding ends
/// (three cuts per harness keep the unwinding bound, and with it the drop-glue depth, small)
fn truncated_at(cuts: [usize; 3]) {
    let mut bytes = [0u8; 48];
    one_block(&mut bytes, b"ELV");
    let mut i = 0;
    while i < 3 {
        let mut c = SliceReader { buf: &bytes[..cuts[i]], pos: 0 };
        let r = decode_digital_radar_data(&mut c);
        assert!(r.is_err());
        core::mem::forget(r);
        i += 1;
    }
}
#[kani::proof]
#[kani::unwind(5)]
fn drd_q_truncated_a() { truncated_at([0, 31, 32]); }
#[kani::proof]
#[kani::unwind(5)]
fn drd_q_truncated_b() { truncated_at([35, 36, 39]); }
#[kani::proof]
#[kani::unwind(5)]
fn drd_q_truncated_c() { truncated_at([40, 47, 1]); }

/// a moment block declaring far more gate bytes than remain (5, 1840 and 65535 gates, 8- and 16-bit words, 4 data bytes
/// present): an error — never a hang or a panic
#[kani::proof]
#[kani::unwind(5)]
fn drd_q_gates_short() {
    let gates_set = [5u16, 1840, 65535];
    let k: usize = kani::any();
    kani::assume(k < 3);
    let wide: bool = kani::any();
    let mut bytes = [0u8; 36 + 28 + 4];
    one_block(&mut bytes, b"REF");
    bytes[36 + 8..36 + 10].copy_from_slice(&gates_set[k].to_be_bytes());
    bytes[36 + 19] = if wide { 16 } else { 8 };
    let mut c = SliceReader { buf: &bytes[..], pos: 0 };
    let r = decode_digital_radar_data(&mut c);
    assert!(r.is_err());
    core::mem::forget(r);
}
