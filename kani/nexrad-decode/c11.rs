//! C11 — Volume Coverage Pattern message: scaling and bit fields (layout: wire_layout.rs; cut loop: Verus unit).
//! All harnesses are over the full 2^16 / 2^8 domain of each raw field.  Loops inside decode_angle /
//! decode_angular_velocity have constant trip counts (13 / 12) and are fully unwound (unwinding assertions on).
use crate::messages::volume_coverage_pattern::{
    ChannelConfiguration, ElevationDataBlock, Header, PatternType, PulseWidth, WaveformType,
};

/// ASSUMED contract of `f64::powf`, restricted to /repo's call sites and *asserted* there: base 2, integer
/// exponent in [-15, 0] => the exact power of two.  (CBMC's own pow model is approximate.)
fn pow2_exact(base: f64, e: f64) -> f64 {
    assert!(base == 2.0);
    let k = e as i32;
    assert!(k as f64 == e && k <= 0 && k >= -15);
    1.0 / ((1u32 << (-k) as u32) as f64)
}

fn blank_cut() -> ElevationDataBlock {
    let b = [0u8; 46];
    let mut r: &[u8] = &b;
    crate::util::deserialize(&mut r).unwrap()
}

fn blank_header() -> Header {
    let b = [0u8; 22];
    let mut r: &[u8] = &b;
    crate::util::deserialize(&mut r).unwrap()
}

fn angle(raw: u16) -> f64 {
    ((raw >> 3) as f64) * 180.0 / 4096.0
}

/// angles are (raw >> 3) x 180/4096 degrees: elevation angle, three sector edge angles, EBC angle — each
/// accessor on its own field (distinct symbolic raws, so a crossed accessor is visible)
#[kani::proof]
#[kani::stub(f64::powf, pow2_exact)]
fn c11_angles() {
    let mut c = blank_cut();
    c.elevation_angle = kani::any();
    c.sector_1_edge_angle = kani::any();
    c.sector_2_edge_angle = kani::any();
    c.sector_3_edge_angle = kani::any();
    c.ebc_angle = kani::any();
    assert!(c.elevation_angle_degrees() == angle(c.elevation_angle));
    assert!(c.sector_1_edge_angle_degrees() == angle(c.sector_1_edge_angle));
    assert!(c.sector_2_edge_angle_degrees() == angle(c.sector_2_edge_angle));
    assert!(c.sector_3_edge_angle_degrees() == angle(c.sector_3_edge_angle));
    assert!(c.ebc_angle_degrees() == angle(c.ebc_angle));
}

/// uom-typed angle accessors carry the same quantity as the plain ones: each equals `Angle::new::<degree>` of
/// its own plain accessor.  (Not `.get::<degree>() == plain`: uom stores radians, and deg -> rad -> deg is not
/// the identity in floating point; the property speaks about the degree value, which the plain accessors give.)
#[cfg(feature = "uom")]
#[kani::proof]
#[kani::stub(f64::powf, pow2_exact)]
fn c11_angles_uom() {
    use uom::si::angle::degree;
    use uom::si::f64::Angle;
    let mut c = blank_cut();
    c.elevation_angle = kani::any();
    c.ebc_angle = kani::any();
    assert!(c.elevation_angle() == Angle::new::<degree>(angle(c.elevation_angle)));
    assert!(c.ebc_angle() == Angle::new::<degree>(angle(c.ebc_angle)));
}

/// azimuth rate is ((raw >> 3) & 0xFFF) x 22.5/2048 deg/s, negated when bit 15 is set
#[kani::proof]
#[kani::stub(f64::powf, pow2_exact)]
fn c11_azimuth_rate() {
    let mut c = blank_cut();
    let raw: u16 = kani::any();
    c.azimuth_rate = raw;
    let m = (((raw >> 3) & 0xFFF) as f64) * 22.5 / 2048.0;
    let want = if raw & 0x8000 != 0 { -m } else { m };
    assert!(c.azimuth_rate_degrees_per_second() == want);
}

/// thresholds are raw/8 dB (signed), each accessor on its own field
#[kani::proof]
fn c11_thresholds() {
    let mut c = blank_cut();
    c.reflectivity_threshold = kani::any();
    c.velocity_threshold = kani::any();
    c.spectrum_width_threshold = kani::any();
    c.differential_reflectivity_threshold = kani::any();
    c.differential_phase_threshold = kani::any();
    c.correlation_coefficient_threshold = kani::any();
    assert!(c.reflectivity_threshold() == c.reflectivity_threshold as f64 / 8.0);
    assert!(c.velocity_threshold() == c.velocity_threshold as f64 / 8.0);
    assert!(c.spectrum_width_threshold() == c.spectrum_width_threshold as f64 / 8.0);
    assert!(c.differential_reflectivity_threshold() == c.differential_reflectivity_threshold as f64 / 8.0);
    assert!(c.differential_phase_threshold() == c.differential_phase_threshold as f64 / 8.0);
    assert!(c.correlation_coefficient_threshold() == c.correlation_coefficient_threshold as f64 / 8.0);
}

fn bit16(w: u16, k: u32) -> bool {
    (w >> k) & 1 == 1
}

/// cut block flag / sub-field accessors read exactly their documented bits (equality over the whole word)
#[kani::proof]
fn c11_cut_bits() {
    let mut c = blank_cut();
    let s: u8 = kani::any();
    let w: u16 = kani::any();
    c.super_resolution_control = s;
    c.supplemental_data = w;
    // super resolution control: bit 0 half-degree azimuth, bit 1 quarter-km reflectivity, bit 2 Doppler to
    // 300 km, bit 3 dual-pol to 300 km
    assert!(c.super_resolution_control_half_degree_azimuth() == (s & 1 == 1));
    assert!(c.super_resolution_control_quarter_km_reflectivity() == ((s >> 1) & 1 == 1));
    assert!(c.super_resolution_control_doppler_to_300km() == ((s >> 2) & 1 == 1));
    assert!(c.super_resolution_control_dual_polarization_to_300km() == ((s >> 3) & 1 == 1));
    // supplemental data: bit 0 SAILS cut, bits 1-3 SAILS sequence, bit 4 MRLE cut, bits 5-7 MRLE sequence,
    // bit 9 MPDA cut, bit 10 BASE TILT cut
    assert!(c.supplemental_data_sails_cut() == bit16(w, 0));
    assert!(c.supplemental_data_sails_sequence_number() == ((w >> 1) & 0x7) as u8);
    assert!(c.supplemental_data_mrle_cut() == bit16(w, 4));
    assert!(c.supplemental_data_mrle_sequence_number() == ((w >> 5) & 0x7) as u8);
    assert!(c.supplemental_data_mpda_cut() == bit16(w, 9));
    assert!(c.supplemental_data_base_tilt_cut() == bit16(w, 10));
}

/// byte-wide codes of the cut block
#[kani::proof]
fn c11_cut_codes() {
    let mut c = blank_cut();
    let ch: u8 = kani::any();
    let wf: u8 = kani::any();
    c.channel_configuration = ch;
    c.waveform_type = wf;
    let want_ch = match ch {
        0 => ChannelConfiguration::ConstantPhase,
        1 => ChannelConfiguration::RandomPhase,
        2 => ChannelConfiguration::SZ2Phase,
        _ => ChannelConfiguration::UnknownPhase,
    };
    assert!(c.channel_configuration() == want_ch);
    let want_wf = match wf {
        1 => WaveformType::CS,
        2 => WaveformType::CDW,
        3 => WaveformType::CDWO,
        4 => WaveformType::B,
        5 => WaveformType::SPP,
        _ => WaveformType::Unknown,
    };
    assert!(c.waveform_type() == want_wf);
}

/// header flag / sub-field accessors read exactly their documented bits
#[kani::proof]
fn c11_header_bits() {
    let mut h = blank_header();
    let q: u16 = kani::any();
    let s: u16 = kani::any();
    h.vcp_sequencing = q;
    h.vcp_supplemental_data = s;
    // VCP sequencing: bits 0-4 number of elevations, bits 5-6 max SAILS cuts, bit 13 sequence active, bit 14 truncated
    assert!(h.vcp_sequencing_number_of_elevations() == (q & 0x1F) as u8);
    assert!(h.vcp_sequencing_maximum_sails_cuts() == ((q >> 5) & 0x3) as u8);
    assert!(h.vcp_sequencing_sequence_active() == bit16(q, 13));
    assert!(h.vcp_sequencing_truncated_vcp() == bit16(q, 14));
    // VCP supplemental data: bit 0 SAILS, bits 1-3 number of SAILS cuts, bit 4 MRLE, bits 5-7 number of MRLE
    // cuts, bit 11 MPDA, bit 12 BASE TILT, bits 13-15 number of BASE TILTS
    assert!(h.vcp_supplemental_data_sails_vcp() == bit16(s, 0));
    assert!(h.vcp_supplemental_data_number_sails_cuts() == ((s >> 1) & 0x7) as u8);
    assert!(h.vcp_supplemental_data_mrle_vcp() == bit16(s, 4));
    assert!(h.vcp_supplemental_data_number_mrle_cuts() == ((s >> 5) & 0x7) as u8);
    assert!(h.vcp_supplemental_data_mpda_vcp() == bit16(s, 11));
    assert!(h.vcp_supplemental_data_base_tilt_vcp() == bit16(s, 12));
    assert!(h.vcp_supplemental_data_base_tilts() == ((s >> 13) & 0x7) as u8);
}

/// coded header fields
#[kani::proof]
fn c11_header_codes() {
    let mut h = blank_header();
    let pt: u16 = kani::any();
    let pw: u8 = kani::any();
    let dv: u8 = kani::any();
    h.pattern_type = pt;
    h.pulse_width = pw;
    h.doppler_velocity_resolution = dv;
    assert!(h.pattern_type() == if pt == 2 { PatternType::Constant } else { PatternType::Unknown });
    assert!(h.pulse_width() == match pw { 2 => PulseWidth::Short, 4 => PulseWidth::Long, _ => PulseWidth::Unknown });
    assert!(h.doppler_velocity_resolution_meters_per_second() == match dv { 2 => Some(0.5), 4 => Some(1.0), _ => None });
}
