//! C08 call-site proofs: every date/time accessor calls `get_datetime` exactly once with its own date field and its
//! own time field in the right unit and returns that call's result.  The callee (under contract in c08.rs, proved
//! for the full domain) is replaced by a recording stub: `stub_verified` done by hand, because Kani's own needs
//! `kani::Arbitrary` for `Option<DateTime<Utc>>`.  Compiled WITHOUT the contract attributes (Kani cannot stub a
//! function that carries a contract).
use chrono::Duration;
use std::sync::atomic::{AtomicI64, AtomicU32, Ordering::Relaxed};

static SPY_CALLS: AtomicU32 = AtomicU32::new(0);
static SPY_DATE: AtomicU32 = AtomicU32::new(0);
static SPY_MS: AtomicI64 = AtomicI64::new(0);

/// recording stand-in for `get_datetime` at the accessors' call sites (the real function is under contract above)
fn get_datetime_spy(modified_julian_date: u16, past_midnight: Duration) -> Option<chrono::DateTime<chrono::Utc>> {
    SPY_CALLS.fetch_add(1, Relaxed);
    SPY_DATE.store(modified_julian_date as u32, Relaxed);
    SPY_MS.store(past_midnight.num_milliseconds(), Relaxed);
    chrono::DateTime::from_timestamp(12345, 0) // a fixed recognisable instant
}

fn spy_reset() {
    SPY_CALLS.store(0, Relaxed);
}

fn spied(date: u16, ms: i64, r: Option<chrono::DateTime<chrono::Utc>>) {
    assert!(SPY_CALLS.load(Relaxed) == 1);
    assert!(SPY_DATE.load(Relaxed) == date as u32);
    assert!(SPY_MS.load(Relaxed) == ms);
    assert!(r == chrono::DateTime::from_timestamp(12345, 0)); // the accessor returns the call's result unchanged
}

fn msg_header(date: u16, time: u32) -> crate::messages::message_header::MessageHeader {
    let mut b = [0u8; 28];
    b[18..20].copy_from_slice(&date.to_be_bytes());
    b[20..24].copy_from_slice(&time.to_be_bytes());
    let mut r: &[u8] = &b;
    crate::messages::decode_message_header(&mut r).unwrap()
}

/// MessageHeader::date_time == get_datetime(date, time in MILLISECONDS), all field values
#[kani::proof]
#[kani::stub(crate::util::get_datetime, get_datetime_spy)]
fn c08_accessor_message_header() {
    let d: u16 = kani::any();
    let t: u32 = kani::any();
    let h = msg_header(d, t);
    spy_reset();
    let r = h.date_time();
    spied(d, t as i64, r);
}

/// digital_radar_data::Header::date_time == get_datetime(date, time in MILLISECONDS)
#[kani::proof]
#[kani::stub(crate::util::get_datetime, get_datetime_spy)]
fn c08_accessor_drd_header() {
    let d: u16 = kani::any();
    let t: u32 = kani::any();
    let mut b = [0u8; 32];
    b[4..8].copy_from_slice(&t.to_be_bytes());
    b[8..10].copy_from_slice(&d.to_be_bytes());
    let mut r: &[u8] = &b;
    let h: crate::messages::digital_radar_data::Header = crate::util::deserialize(&mut r).unwrap();
    spy_reset();
    let r = h.date_time();
    spied(d, t as i64, r);
}

/// clutter_filter_map::Header::date_time == get_datetime(date, time in MINUTES)
#[kani::proof]
#[kani::stub(crate::util::get_datetime, get_datetime_spy)]
fn c08_accessor_cfm_header() {
    let d: u16 = kani::any();
    let t: u16 = kani::any();
    let mut b = [0u8; 6];
    b[0..2].copy_from_slice(&d.to_be_bytes());
    b[2..4].copy_from_slice(&t.to_be_bytes());
    let mut r: &[u8] = &b;
    let h: crate::messages::clutter_filter_map::Header = crate::util::deserialize(&mut r).unwrap();
    spy_reset();
    let r = h.date_time();
    spied(d, t as i64 * 60_000, r);
}

/// rda_status_data::Message generation date-times == get_datetime(own date, own time in MINUTES)
#[kani::proof]
#[kani::stub(crate::util::get_datetime, get_datetime_spy)]
fn c08_accessor_rda_status() {
    let d1: u16 = kani::any();
    let t1: u16 = kani::any();
    let d2: u16 = kani::any();
    let t2: u16 = kani::any();
    let mut b = [0u8; 120];
    b[36..38].copy_from_slice(&d1.to_be_bytes()); // halfword 19: bypass map generation date
    b[38..40].copy_from_slice(&t1.to_be_bytes()); // halfword 20: bypass map generation time
    b[40..42].copy_from_slice(&d2.to_be_bytes()); // halfword 21: clutter filter map generation date
    b[42..44].copy_from_slice(&t2.to_be_bytes()); // halfword 22: clutter filter map generation time
    let mut r: &[u8] = &b;
    let m = crate::messages::rda_status_data::decode_rda_status_message(&mut r).unwrap();
    spy_reset();
    let r = m.bypass_map_generation_date_time();
    spied(d1, t1 as i64 * 60_000, r);
    spy_reset();
    let r = m.clutter_filter_map_generation_date_time();
    spied(d2, t2 as i64 * 60_000, r);
}
