//! C10 — message header: layout, type mapping, size semantics.
//! Every harness here is loop-free over the full field domain => complete proofs (no unwinding bound).
use crate::messages::decode_message_header;
use crate::messages::definitions::RedundantChannel;
use crate::messages::message_header::MessageHeader;
use crate::messages::MessageType;

fn header_from(bytes: &[u8; 28]) -> MessageHeader {
    let mut r: &[u8] = bytes;
    let h = decode_message_header(&mut r).unwrap();
    assert!(r.is_empty());
    h
}

/// every field of the 28-byte header comes from its ICD offset (12 RPG bytes, then Table II order)
#[kani::proof]
fn c10_layout_message_header() {
    let bytes: [u8; 28] = kani::any();
    let h = header_from(&bytes);
    assert_eq!(h.segment_size, u16::from_be_bytes([bytes[12], bytes[13]]));
    assert_eq!(h.redundant_channel, bytes[14]);
    assert_eq!(h.message_type, bytes[15]);
    assert_eq!(h.sequence_number, u16::from_be_bytes([bytes[16], bytes[17]]));
    assert_eq!(h.date, u16::from_be_bytes([bytes[18], bytes[19]]));
    assert_eq!(h.time, u32::from_be_bytes([bytes[20], bytes[21], bytes[22], bytes[23]]));
    assert_eq!(h.segment_count, u16::from_be_bytes([bytes[24], bytes[25]]));
    assert_eq!(h.segment_number, u16::from_be_bytes([bytes[26], bytes[27]]));
}

/// ICD message-type list (Table I), written from the ICD numbering, not read off the `match`
fn expected_type(code: u8) -> MessageType {
    use MessageType::*;
    match code {
        1 => RDADigitalRadarData,
        2 => RDAStatusData,
        3 => RDAPerformanceMaintenanceData,
        4 => RDAConsoleMessage,
        5 => RDAVolumeCoveragePattern,
        6 => RDAControlCommands,
        7 => RPGVolumeCoveragePattern,
        8 => RPGClutterCensorZones,
        9 => RPGRequestForData,
        10 => RPGConsoleMessage,
        11 => RDALoopBackTest,
        12 => RPGLoopBackTest,
        13 => RDAClutterFilterBypassMap,
        14 => Spare1,
        15 => RDAClutterFilterMap,
        16 => ReservedFAARMSOnly1,
        17 => ReservedFAARMSOnly2,
        18 => RDAAdaptationData,
        20 => Reserved1,
        21 => Reserved2,
        22 => Reserved3,
        23 => Reserved4,
        24 => ReservedFAARMSOnly3,
        25 => ReservedFAARMSOnly4,
        26 => ReservedFAARMSOnly5,
        29 => Reserved5,
        31 => RDADigitalRadarDataGenericFormat,
        32 => RDAPRFData,
        33 => RDALogData,
        c => Unknown(c),
    }
}

/// all 256 codes: defined code -> its own type, every other code preserved verbatim as Unknown(code);
/// distinct codes give distinct results
#[kani::proof]
fn c10_type_map() {
    let mut bytes = [0u8; 28];
    let code: u8 = kani::any();
    let code2: u8 = kani::any();
    bytes[15] = code;
    let h = header_from(&bytes);
    let t = h.message_type();
    assert!(t == expected_type(code));
    // a defined code never surfaces as Unknown, an undefined one always does with the code preserved
    let defined = matches!(code, 1..=18 | 20..=26 | 29 | 31..=33);
    match t {
        MessageType::Unknown(c) => assert!(!defined && c == code),
        _ => assert!(defined),
    }
    bytes[15] = code2;
    let t2 = header_from(&bytes).message_type();
    if code != code2 {
        assert!(t != t2);
    }
}

/// the six defined redundant-channel codes (nothing is demanded of other codes)
#[kani::proof]
fn c10_redundant_channel() {
    let mut bytes = [0u8; 28];
    let code: u8 = kani::any();
    kani::assume(matches!(code, 0 | 1 | 2 | 8 | 9 | 10));
    kani::cover!(code == 10);
    bytes[14] = code;
    let ch = header_from(&bytes).rda_redundant_channel();
    let expect = match code {
        0 => RedundantChannel::LegacySingleChannel,
        1 => RedundantChannel::LegacyRedundantChannel1,
        2 => RedundantChannel::LegacyRedundantChannel2,
        8 => RedundantChannel::ORDASingleChannel,
        9 => RedundantChannel::ORDARedundantChannel1,
        _ => RedundantChannel::ORDARedundantChannel2,
    };
    assert!(ch == expect);
}

fn header_sized(size: u16, count: u16, number: u16) -> MessageHeader {
    let mut bytes = [0u8; 28];
    bytes[12..14].copy_from_slice(&size.to_be_bytes());
    bytes[24..26].copy_from_slice(&count.to_be_bytes());
    bytes[26..28].copy_from_slice(&number.to_be_bytes());
    header_from(&bytes)
}

/// size semantics for all u16 x u16 x u16 (size, count, number); Kani's overflow checks on the real
/// accessors are the "every accessor returns for every size value" clause
#[kani::proof]
fn c10_size_rule() {
    let size: u16 = kani::any();
    let count: u16 = kani::any();
    let number: u16 = kani::any();
    let h = header_sized(size, count, number);
    assert!(h.segmented() == (size != 0xFFFF));
    if size != 0xFFFF {
        assert!(h.message_size_bytes() == 2 * size as u32);
        assert!(h.segment_count() == Some(count));
        assert!(h.segment_number() == Some(number));
    } else {
        assert!(h.message_size_bytes() == ((count as u32) << 16 | number as u32));
        assert!(h.segment_count().is_none());
        assert!(h.segment_number().is_none());
    }
}

/// unit-typed and plain size accessors agree for every header; segment_size() is Some(2*size bytes) iff segmented
#[cfg(feature = "uom")]
#[kani::proof]
fn c10_size_agree() {
    use uom::si::information::byte;
    let size: u16 = kani::any();
    let count: u16 = kani::any();
    let number: u16 = kani::any();
    let h = header_sized(size, count, number);
    let plain = h.message_size_bytes();
    let typed = h.message_size().get::<byte>();
    assert!(typed == plain as f64);
    match h.segment_size() {
        Some(s) => {
            assert!(size != 0xFFFF);
            assert!(s.get::<byte>() == (2 * size as u32) as f64);
        }
        None => assert!(size == 0xFFFF),
    }
}
