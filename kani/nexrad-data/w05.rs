//! C05 / C06 / C19 paired witness harnesses (BOUNDED) on the real nexrad-data functions: the unbounded
//! statements are the Verus units container / volume_scan / elevation_from_chunk.
use crate::volume::{split_compressed_records, File, Record};

/// every 12-byte string: no panic, termination, records are consecutive prefix+|size| slices in order
#[kani::proof]
#[kani::unwind(14)]
fn w05_split_records_12_bytes() {
    let data: [u8; 12] = kani::any();
    let recs = split_compressed_records(&data);
    let mut pos = 0usize;
    let mut i = 0;
    while i < recs.len() {
        let d = recs[i].data();
        assert!(d.len() >= 4);
        let size = i32::from_be_bytes([d[0], d[1], d[2], d[3]]).unsigned_abs() as usize;
        assert!(d.len() == 4 + size);
        assert!(pos + d.len() <= 12);
        let mut k = 0;
        while k < d.len() {
            assert!(d[k] == data[pos + k]);
            k += 1;
        }
        pos += d.len();
        i += 1;
    }
    // the list stops only at the end of the data or at a truncated record
    if pos < 12 {
        assert!(12 - pos < 4 || {
            let s = i32::from_be_bytes([data[pos], data[pos + 1], data[pos + 2], data[pos + 3]]).unsigned_abs() as usize;
            12 - pos - 4 < s
        });
    }
    core::mem::forget(recs);
}

/// volumes shorter than the 24-byte header, and a header followed by a truncated size prefix: no panic, no records
#[kani::proof]
#[kani::unwind(30)]
fn w06_short_volumes() {
    let bytes: [u8; 27] = kani::any();
    let mut n = 0usize;
    while n <= 27 {
        let f = File::new(bytes[..n].to_vec());
        let r = f.records();
        assert!(r.is_empty());
        core::mem::forget(r);
        core::mem::forget(f);
        n += 1;
    }
}

/// compressed() on every record of up to 8 bytes: true exactly when 'B','Z' follow the 4-byte prefix
#[kani::proof]
#[kani::unwind(11)]
fn w05_compressed_flag() {
    let bytes: [u8; 8] = kani::any();
    let mut n = 0usize;
    while n <= 8 {
        let r = Record::from_slice(&bytes[..n]);
        assert!(r.compressed() == (n >= 6 && bytes[4] == b'B' && bytes[5] == b'Z'));
        n += 1;
    }
}
