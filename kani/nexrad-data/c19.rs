//! C19 — rolling window of recorded timings (BOUNDED: at most 12 samples for one key; the estimate itself is the
//! Verus unit `estimate`, which takes `get_average_timing` / `get_average_attempts` as uninterpreted means).
//! The real `ChunkTimingStats::{add_timing, get_average_timing, get_average_attempts}` are executed symbolically:
//! after n <= 12 recorded samples the averages are those of the LAST TEN (integer mean of the millisecond
//! durations; f64 quotient of the attempt sum), none iff nothing was recorded, and another key is unaffected.
use crate::aws::realtime::{ChunkCharacteristics, ChunkTimingStats, ChunkType};
use chrono::Duration;
use nexrad_decode::messages::volume_coverage_pattern::{ChannelConfiguration, WaveformType};

const N_MAX: usize = 12;

#[kani::proof]
#[kani::unwind(14)]
fn c19_window_of_ten() {
    let key = ChunkCharacteristics {
        chunk_type: ChunkType::Intermediate,
        waveform_type: WaveformType::CS,
        channel_configuration: ChannelConfiguration::ConstantPhase,
    };
    let other = ChunkCharacteristics { chunk_type: ChunkType::End, ..key };
    let n: usize = kani::any();
    kani::assume(n <= N_MAX);
    kani::cover!(n == N_MAX);
    kani::cover!(n == 0);
    let mut stats = ChunkTimingStats::new();
    let mut dur = [0i64; N_MAX];
    let mut att = [0usize; N_MAX];
    let mut k = 0;
    while k < N_MAX {
        if k < n {
            let d: i64 = kani::any();
            let a: usize = kani::any();
            kani::assume(0 <= d && d <= 60_000);
            kani::assume(1 <= a && a <= 5);
            dur[k] = d;
            att[k] = a;
            stats.add_timing(key, Duration::milliseconds(d), a);
        }
        k += 1;
    }
    let lo = if n > 10 { n - 10 } else { 0 };
    let mut sum_d = 0i64;
    let mut sum_a = 0usize;
    let mut j = 0;
    while j < N_MAX {
        if lo <= j && j < n {
            sum_d += dur[j];
            sum_a += att[j];
        }
        j += 1;
    }
    let cnt = n - lo;
    match stats.get_average_timing(&key) {
        None => assert!(n == 0),
        Some(d) => assert!(n > 0 && d.num_milliseconds() == sum_d / cnt as i64),
    }
    match stats.get_average_attempts(&key) {
        None => assert!(n == 0),
        Some(a) => assert!(n > 0 && a == sum_a as f64 / cnt as f64),
    }
    assert!(stats.get_average_timing(&other).is_none());
    assert!(stats.get_average_attempts(&other).is_none());
    core::mem::forget(stats);
}
