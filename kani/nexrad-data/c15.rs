//! C15 — latest-volume search, functional result (BOUNDED: n <= N_MAX; the unbounded safety / termination /
//! candidate-only-improves statement is the Verus unit `search`).
//! The real `async fn search` is driven by a safe single-future executor (no runtime, no threads): the closure
//! future is immediately ready, so polling runs the sequential semantics the Verus unit assumes (R-async).
use crate::aws::realtime::search::search;
use core::future::Future;
use core::task::{Context, Poll, Waker};

fn block_on<F: Future>(fut: F) -> F::Output {
    let mut cx = Context::from_waker(Waker::noop());
    let mut fut = Box::pin(fut);
    loop {
        if let Poll::Ready(v) = fut.as_mut().poll(&mut cx) {
            return v;
        }
    }
}

/// every bucket shape for size N: newest position p, populated count k (one contiguous run in rotation order,
/// strictly increasing upload times towards the newest, the rest empty); target above every upload time
fn shapes<const N: usize>() {
    let p: usize = kani::any();
    let k: usize = kani::any();
    kani::assume(p < N && k <= N);
    kani::cover!(k == N && p == 1);
    let mut a: [Option<u64>; N] = [None; N];
    let mut j = 0;
    while j < N {
        if j < k {
            // j-th newest entry sits j places before p (cyclically) and is j ticks older
            a[(p + N - j) % N] = Some((1000 + k - j) as u64);
        }
        j += 1;
    }
    let mut calls = 0usize;
    let r = block_on(search(N, u64::MAX, |i| {
        calls += 1;
        let v = a[i];
        async move { Ok(v) }
    }));
    match r {
        Ok(found) => {
            if k == 0 {
                assert!(found.is_none());
            } else {
                assert!(found == Some(p)); // the populated directory uploaded most recently
            }
        }
        Err(_) => assert!(false),
    }
    // never more listing calls than directories plus a logarithmic term
    assert!(calls <= N + 2 * (usize::BITS - N.leading_zeros()) as usize + 4);
}

#[kani::proof]
#[kani::unwind(12)]
fn c15_search_all_shapes_n3() { shapes::<3>(); }

#[kani::proof]
#[kani::unwind(14)]
fn c15_search_all_shapes_n4() { shapes::<4>(); }

#[kani::proof]
#[kani::unwind(16)]
fn c15_search_all_shapes_n5() { shapes::<5>(); }

#[kani::proof]
#[kani::unwind(24)]
fn c15_search_all_shapes_n8() { shapes::<8>(); }
