//! C05 — Archive II volume header (24 bytes): accessors return the encoded fields.
//! All fields of volume::Header are private, so the layout is checked through the accessors.
use crate::volume::Header;

/// tape filename = bytes 0..9, extension number = bytes 9..12, ICAO = bytes 20..24, for every ASCII content
/// (non-ASCII bytes are outside the documented content of these text fields; for them `from_utf8` decides)
#[kani::proof]
#[kani::unwind(26)]
fn c05_volume_header_text_fields() {
    let b: [u8; 24] = kani::any();
    let mut i = 0;
    while i < 24 {
        if i < 12 || i >= 20 {
            kani::assume(b[i] < 128);
        }
        i += 1;
    }
    let mut r: &[u8] = &b;
    let h = Header::deserialize(&mut r).unwrap();
    assert!(r.is_empty());
    let t = h.tape_filename().unwrap();
    assert!(t.as_bytes().len() == 9);
    let mut i = 0;
    while i < 9 { assert!(t.as_bytes()[i] == b[i]); i += 1; }
    let e = h.extension_number().unwrap();
    assert!(e.as_bytes().len() == 3);
    let mut i = 0;
    while i < 3 { assert!(e.as_bytes()[i] == b[9 + i]); i += 1; }
    let c = h.icao_of_radar().unwrap();
    assert!(c.as_bytes().len() == 4);
    let mut i = 0;
    while i < 4 { assert!(c.as_bytes()[i] == b[20 + i]); i += 1; }
}

/// every strict prefix of the 24-byte header is an error, never a panic
#[kani::proof]
#[kani::unwind(26)]
fn c05_volume_header_prefix() {
    let b: [u8; 24] = kani::any();
    let mut n = 0usize;
    while n < 24 {
        let mut r: &[u8] = &b[..n];
        let v = Header::deserialize(&mut r);
        assert!(v.is_err());
        core::mem::forget(v);
        n += 1;
    }
}
