//! C08 (data crate) call-site proof for volume::Header::date_time; see nexrad-decode/c08s.rs.
use chrono::Duration;
use std::sync::atomic::{AtomicI64, AtomicU32, Ordering::Relaxed};
static SPY_CALLS: AtomicU32 = AtomicU32::new(0);
static SPY_DATE: AtomicU32 = AtomicU32::new(0);
static SPY_MS: AtomicI64 = AtomicI64::new(0);
fn get_datetime_spy(modified_julian_date: u16, past_midnight: Duration) -> Option<chrono::DateTime<chrono::Utc>> {
    SPY_CALLS.fetch_add(1, Relaxed);
    SPY_DATE.store(modified_julian_date as u32, Relaxed);
    SPY_MS.store(past_midnight.num_milliseconds(), Relaxed);
    chrono::DateTime::from_timestamp(12345, 0)
}

/// volume::Header::date_time == get_datetime(date as u16, time in MILLISECONDS): call-site proof with the callee
/// (under contract above) replaced by a recording stub; the header stores the day count in 32 bits and keeps its
/// low 16, which is the identity on the property's domain d <= 65535
#[kani::proof]
#[kani::stub(crate::volume::util::get_datetime, get_datetime_spy)]
fn c08d_volume_header_date_time() {
    let d: u16 = kani::any();
    let t: u32 = kani::any();
    let mut b = [0u8; 24];
    b[12..16].copy_from_slice(&(d as u32).to_be_bytes());
    b[16..20].copy_from_slice(&t.to_be_bytes());
    let mut r: &[u8] = &b;
    let h = crate::volume::Header::deserialize(&mut r).unwrap();
    assert!(r.is_empty());
    SPY_CALLS.store(0, Relaxed);
    let got = h.date_time();
    assert!(SPY_CALLS.load(Relaxed) == 1);
    assert!(SPY_DATE.load(Relaxed) == d as u32);
    assert!(SPY_MS.load(Relaxed) == t as i64);
    assert!(got == chrono::DateTime::from_timestamp(12345, 0));
}
