//! C08 (data crate): the second copy of get_datetime and the volume header accessor.
use crate::volume::util::get_datetime;
use chrono::Duration;

#[kani::proof_for_contract(get_datetime)]
#[kani::solver(kissat)]
fn c08d_get_datetime_contract() {
    let d: u16 = kani::any();
    let t: u32 = kani::any();
    get_datetime(d, Duration::milliseconds(t as i64));
}

#[kani::proof]
fn c08d_get_datetime_total() {
    let d: u16 = kani::any();
    let t: u32 = kani::any();
    let _ = get_datetime(d, Duration::milliseconds(t as i64));
}

