//! C08 (data crate): the second copy of get_datetime and the volume header accessor.
use crate::volume::util::get_datetime;
use chrono::Duration;

#[kani::proof_for_contract(get_datetime)]
#[kani::solver(kissat)]
fn c08d_get_datetime_contract() {
    let d: u16 = kani::any();
    let t: u32 = kani::any();
    get_datetime(d, Duration::milliseconds(t as i64));
}

#[kani::proof]
fn c08d_get_datetime_total() {
    let d: u16 = kani::any();
    let t: u32 = kani::any();
    let _ = get_datetime(d, Duration::milliseconds(t as i64));
}

/// volume::Header::date_time == get_datetime(date as u16, ms(time)); the header stores the day count in 32
/// bits and keeps its low 16, which is the identity on the property's domain d <= 65535
#[kani::proof]
fn c08d_volume_header_date_time() {
    let d: u16 = kani::any();
    let t: u32 = kani::any();
    let mut b = [0u8; 24];
    b[12..16].copy_from_slice(&(d as u32).to_be_bytes());
    b[16..20].copy_from_slice(&t.to_be_bytes());
    let mut r: &[u8] = &b;
    let h = crate::volume::Header::deserialize(&mut r).unwrap();
    assert!(r.is_empty());
    assert!(h.date_time() == get_datetime(d, Duration::milliseconds(t as i64)));
}
