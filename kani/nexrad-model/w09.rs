//! C09 / C01 paired witness harnesses (BOUNDED): the unbounded statement is the Verus unit `sweep`.  These run
//! the same postconditions on the real functions for <= 3 radials, to obtain a concrete counterexample when the
//! Verus proof is refuted or lost (restructured code).  Results are forgotten, not dropped: the drop glue of
//! Vec<Radial> (7 optional moment vectors per radial) is not under test and dominates CBMC time.
use crate::data::{Radial, RadialStatus, Sweep};

fn radial(elev: u8, az: u16, ts: i64) -> Radial {
    Radial::new(ts, az, 0.0, 0.5, RadialStatus::IntermediateRadialData, elev, 0.0, None, None, None, None, None, None, None)
}

// (no witness for Sweep::from_radials: CBMC needs > 24 GB for it even with 1-3 radials — drop glue of Vec<Radial>)
/// merge: Err iff elevation numbers differ; otherwise the union ordered by azimuth number, ties first-then-second
/// (radials are tagged through their timestamp: 0,1 for the first sweep, 10,11 for the second)
#[kani::proof]
#[kani::unwind(6)]
fn w09_merge() {
    let ea: u8 = kani::any();
    let eb: u8 = kani::any();
    let az: [u16; 4] = kani::any();
    let ts: [i64; 4] = kani::any(); // arbitrary collection times: the order must not depend on them
    let a = Sweep::new(ea, vec![radial(ea, az[0], ts[0]), radial(ea, az[1], ts[1])]);
    let b = Sweep::new(eb, vec![radial(eb, az[2], ts[2]), radial(eb, az[3], ts[3])]);
    let r = a.merge(b);
    match r {
        Err(e) => {
            assert!(ea != eb);
            core::mem::forget(e);
        }
        Ok(m) => {
            assert!(ea == eb);
            assert!(m.elevation_number() == ea);
            let rs = m.radials();
            assert!(rs.len() == 4);
            // expected: stable insertion of (az, original index)
            let mut idx = [0usize, 1, 2, 3];
            let mut i = 1;
            while i < 4 {
                let mut j = i;
                while j > 0 && az[idx[j - 1]] > az[idx[j]] {
                    idx.swap(j - 1, j);
                    j -= 1;
                }
                i += 1;
            }
            let mut k = 0;
            while k < 4 {
                assert!(rs[k].azimuth_number() == az[idx[k]]);
                assert!(rs[k].collection_timestamp() == ts[idx[k]]);
                k += 1;
            }
            core::mem::forget(m);
        }
    }
}

