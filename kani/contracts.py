"""Kani function contracts injected (in the scratch copy only) in front of the real `fn` they belong to.
Each entry: crate-relative file, item selector (same finder as the Verus extractor), attribute text."""

GET_DATETIME = '''
#[cfg_attr(kani, kani::ensures(|r: &Option<DateTime<Utc>>|
    // C08: for a day count d in 1..=65535 and a time of day below 24 h: exactly 1970-01-01T00:00:00Z + (d - 1) days + t.
    // (The domain is a hypothesis inside the postcondition, not a `requires`: outside it the function must still
    // return, which the *_total harnesses check on the same function.)
    !(modified_julian_date >= 1 && past_midnight >= chrono::Duration::zero() && past_midnight < chrono::Duration::days(1))
    || match r {
        Some(dt) => dt.timestamp() == (modified_julian_date as i64 - 1) * 86_400 + past_midnight.num_seconds()
            && dt.timestamp_subsec_millis() as i64 == past_midnight.num_milliseconds() % 1000,
        None => false,
    }))]
'''

CONTRACTS = {
    "nexrad-decode": [
        dict(file="nexrad-decode/src/util.rs", select="fn get_datetime", attrs=GET_DATETIME),
    ],
    "nexrad-data": [
        dict(file="nexrad-data/src/volume/util.rs", select="fn get_datetime", attrs=GET_DATETIME),
    ],
}
