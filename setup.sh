#!/bin/sh
# One-off, offline: warm the Verus cache and pre-build the Kani dependency artefacts into /verif/.cache.
# Checks work without this (they build what is missing), only slower.
cd "$(dirname "$0")"
export CARGO_NET_OFFLINE=true
mkdir -p gen/logs .cache
python3 tools/setup.py 2>&1 | tail -20
exit 0
