"""Which units / harnesses decide which property.  (The *contracts* live in units/ and kani/.)"""

import os as _os, sys as _sys
_sys.path.insert(0, _os.path.dirname(_os.path.abspath(__file__)))
import wire as _wire

DECODE_STRUCTS = [n for n in _wire.T if _wire.T[n]["crate"] == "nexrad-decode"]


def layout_h(names):
    return [dict(name="wire_layout_" + n, what="%s: %d bytes, every field at its ICD offset (%s), all byte values" % (
        n, _wire.T[n]["wire"], _wire.T[n]["icd"])) for n in names]


def prefix_h(names, tier="quick"):
    out = []
    for n in names:
        for h in _wire.prefix_harnesses(n):
            out.append(dict(name=h, tier=tier, what="%s: strict prefixes are Err, never a panic" % n))
    return out


STD_TRUST = [
    "Verus 0.2026.09.13 + Z3 (soundness of the verifier, vstd specs of Vec/Option/slice/iterators)",
    "rustc: the extracted text compiles to the same semantics inside verus!{} as in the crate",
]
KANI_TRUST = [
    "Kani 0.68 / CBMC 6.11 (bit-precise symbolic execution of the real crate MIR; SAT back end)",
]

CHECKS = {
    "C09": dict(
        verus=[dict(unit="sweep")],
        kani=[dict(crate="nexrad-model", files=["w09.rs"], role="witness", harnesses=[
            dict(name="w09_merge", bounded="2 + 2 radials, symbolic azimuth numbers / timestamps / elevation numbers", what="merge: Err iff elevations differ; union ordered by azimuth, ties first-then-second (real sort_by_key)"),
        ])],
        trusted_base=STD_TRUST + [
            "assumed std contracts: Vec::extend appends the iterator's items in order; slice::sort_by_key is a stable sort by key",
        ],
        not_decided=[],
        explanation="Sweep::from_radials and Sweep::merge are extracted verbatim from nexrad-model and proved against "
                    "postconditions taken from the property text (concatenation == input, non-empty uniform maximal runs; "
                    "merge == stable azimuth-ordered union / Err on mismatch) for all sequences, no bound.",
    ),
    "C10": dict(
        verus=[dict(unit="framing", functions=["MessageHeader::"])],
        kani=[dict(crate="nexrad-decode", files=["c10.rs"], harnesses=[
            dict(name="c10_layout_message_header", what="8 header fields at ICD offsets 12,14,15,16,18,20,24,26 through the real serde/bincode path, all 2^224 byte values"),
            dict(name="c10_type_map", what="message_type() for all 256 codes vs ICD Table I; Unknown(code) preserved; distinct codes distinct types"),
            dict(name="c10_redundant_channel", what="six defined redundant-channel codes"),
            dict(name="c10_size_rule", what="segmented/size/count/number semantics for all u16^3, no overflow"),
            dict(name="c10_size_agree", what="uom-typed and plain size accessors agree for all u16^3"),
        ])],
        trusted_base=STD_TRUST + KANI_TRUST,
        explanation="Every harness is loop-free over the full field domain (complete, no unwinding bound); the header "
                    "accessors are additionally proved by Verus on the extracted text (fast first stage).",
    ),
    "C03": dict(
        verus=[dict(unit="framing"), dict(unit="drd_decode")],
        trusted_base=STD_TRUST + [
            "reader model: Read::read_exact consumes exactly |buf| bytes or fails when fewer remain (std::io contract for &[u8]/Cursor)",
            "util::deserialize::<_, MessageHeader> reads 28 bytes at the ICD offsets (proved by Kani harness c10_layout_message_header)",
            "decode_digital_radar_data leaves the reader where drd_spec says (proved in unit drd_decode over the absolute Cursor model); framing uses it through the uninterpreted spec_drd(bytes).1",
        ],
        not_decided=["the identification of framing's uninterpreted spec_drd (value, consumed length) with drd_decode's drd_spec is a "
                     "hand-over of the contract text between two units with different reader models (remaining bytes vs absolute "
                     "position), not one machine-checked chain"],
        explanation="decode_messages / decode_message_contents / decode_message_header extracted verbatim; postcondition "
                    "result == spec_stream(bytes) for all byte streams and all 256 type codes, loop invariant over a ghost "
                    "cursor, termination by remaining length.",
    ),
    "C05": dict(
        verus=[dict(unit="container"), dict(unit="volume_scan", functions=["Record::", "File::records"])],
        kani=[dict(crate="nexrad-data", files=["c05.rs", "c08s.rs"], contracts=False, no_default_features=True, features=["decode"], harnesses=[
            dict(name="c05_volume_header_text_fields", what="tape filename / extension number / ICAO accessors == header bytes 0..9 / 9..12 / 20..24 (ASCII)"),
            dict(name="c08d_volume_header_date_time", what="date_time() calls get_datetime(date, ms(time)) through the real 24-byte deserialize (closed form: C08)"),
        ]),
        dict(crate="nexrad-data", files=["w05.rs"], role="witness", tag="-witness", no_default_features=True, features=["decode"], harnesses=[
            dict(name="w05_split_records_12_bytes", bounded="every 12-byte string", what="records are consecutive prefix+|size| slices; the list stops only at the end or at a truncated record"),
            dict(name="w05_compressed_flag", bounded="every record of <= 8 bytes", what="compressed() exactly when 'BZ' follows the prefix"),
        ])],
        trusted_base=STD_TRUST + ["i32::from_be_bytes / unsigned_abs std contracts; [u8]==[u8;N] compares contents"],
        not_decided=["decompress(record built from payload) == payload: reduces to bzip2's own round trip (C library behind FFI)",
                     ],
        explanation="split_compressed_records, File::records, Record::{new,from_slice,data,compressed}, Chunk::{new,data} "
                    "extracted verbatim; record list == tile(bytes) for every byte string and lemma_tile_wf: for "
                    "well-formed data the records concatenate to the data and each is prefix+|size| bytes.",
    ),
    "C06": dict(
        verus=[dict(unit="container"), dict(unit="volume_scan")],
        kani=[dict(crate="nexrad-data", files=["c05.rs"], no_default_features=True, features=["decode"], harnesses=[
            dict(name="c05_volume_header_prefix", what="File::header on every strict prefix of the 24-byte header: Err, never a panic"),
        ]),
        dict(crate="nexrad-data", files=["w05.rs"], role="witness", tag="-witness", no_default_features=True, features=["decode"], harnesses=[
            dict(name="w05_split_records_12_bytes", bounded="every 12-byte string", what="no panic, termination"),
            dict(name="w06_short_volumes", bounded="every volume of <= 27 bytes", what="shorter-than-header and truncated-prefix volumes: empty record list, no panic"),
        ])],
        trusted_base=STD_TRUST + ["i32::from_be_bytes / unsigned_abs std contracts; [u8]==[u8;N] compares contents"],
        not_decided=["Debug formatting plumbing (std::fmt builders) and bzip2 returning Err on corrupt streams are assumed"],
        explanation="Same unit as C05 without the well-formedness hypothesis: no slice/index/overflow obligation can fail and "
                    "the loop terminates for every byte string.",
    ),
    "C08": dict(
        kani=[dict(crate="nexrad-decode", files=["c08.rs"], tag="-contract", harnesses=[
            dict(name="c08_get_datetime_contract", what="injected contract on util::get_datetime: all d in 1..=65535, all ms < 86_400_000: timestamp()==(d-1)*86400+t/1000, subsec millis==t%1000; chrono executed symbolically"),
            dict(name="c08_minutes_get_datetime_contract", tier="thorough", what="same contract through Duration::minutes (subsumed by the millisecond harness: the Duration values coincide)"),
            dict(name="c08_get_datetime_total", tier="thorough", what="no panic for all u16 x u32 ms and all u16 x u16 minutes, including inputs outside the documented domain (inside it the contract harness already excludes a panic); ~10-13 min"),
        ]),
        dict(crate="nexrad-decode", files=["c08s.rs"], tag="-callsites", contracts=False, harnesses=[
            dict(name="c08_accessor_message_header", what="MessageHeader::date_time calls get_datetime(date, ms(time)) once and returns its result, all field values"),
            dict(name="c08_accessor_drd_header", what="digital_radar_data::Header::date_time: get_datetime(date, ms(time))"),
            dict(name="c08_accessor_cfm_header", what="clutter_filter_map::Header::date_time: get_datetime(date, minutes(time))"),
            dict(name="c08_accessor_rda_status", what="both generation date-times: get_datetime(own date, minutes(own time))"),
        ]),
        dict(crate="nexrad-data", files=["c08.rs"], tag="-contract", no_default_features=True, features=["decode"], harnesses=[
            dict(name="c08d_get_datetime_contract", what="the data crate's own copy of get_datetime: same contract, full domain"),
            dict(name="c08d_get_datetime_total", tier="thorough", what="no panic, all u16 x u32 (outside the documented domain too)"),
        ]),
        dict(crate="nexrad-data", files=["c08s.rs"], tag="-callsites", contracts=False, no_default_features=True, features=["decode"], harnesses=[
            dict(name="c08d_volume_header_date_time", what="volume::Header::date_time calls get_datetime(date as u16, ms(time)) through the real 24-byte deserialize"),
        ])],
        trusted_base=KANI_TRUST + ["kissat SAT solver (Kani bundle)"],
        explanation="Kani function contract on the two get_datetime copies proved over the full domain with chrono executed "
                    "symbolically; every accessor proved equal to get_datetime(own date field, own time field in its unit), so "
                    "each accessor equals the same closed form (strictly increasing, identical across crates).",
    ),
    "C11": dict(
        verus=[dict(unit="vcp_decode")],
        kani=[dict(crate="nexrad-decode", files=["c11.rs", "wire_layout.rs"], harnesses=[
            dict(name="wire_layout_VcpHeader", what="22-byte header, every field at its ICD offset"),
            dict(name="wire_layout_VcpElevation", what="46-byte cut block, every field at its ICD offset"),
            dict(name="c11_angles", what="5 angle accessors == (raw>>3)*180/4096 for all 2^16 raws each"),
            dict(name="c11_angles_uom", what="uom-typed angle accessors agree"),
            dict(name="c11_azimuth_rate", what="azimuth rate == ((raw>>3)&0xFFF)*22.5/2048, negated on bit 15, all 2^16"),
            dict(name="c11_thresholds", what="six thresholds == raw as i16 / 8"),
            dict(name="c11_cut_bits", what="super-resolution and supplemental-data flags/sub-fields == documented bits, all values"),
            dict(name="c11_cut_codes", what="channel configuration / waveform codes, all 2^8"),
            dict(name="c11_header_bits", what="vcp_sequencing / vcp_supplemental_data sub-fields == documented bits, all 2^16"),
            dict(name="c11_header_codes", what="pattern type, pulse width, doppler resolution codes"),
        ]),
        dict(crate="nexrad-decode", files=["drd.rs", "w03.rs"], role="witness", tag="-witness", harnesses=[
            dict(name="w11_vcp_cuts", bounded="<= 2 cuts fit the 114-byte buffer; declared count fully symbolic", what="exactly the declared cuts from their own windows; a count that does not fit is an error"),
        ])],
        trusted_base=STD_TRUST + KANI_TRUST + [
            "f64::powf(2.0, k) for integer k in [-15,0] is the exact power of two (stub asserts the call-site precondition)",
            "reader model + deserialize contract for Header(22)/ElevationDataBlock(46) (the latter proved by the two layout harnesses)"],
        explanation="Cut loop proved unbounded by Verus on the extracted decoder (exactly the declared number of 46-byte windows, "
                    "Err iff the declared structure does not fit); layouts and all scaled/bit-field accessors by complete Kani harnesses.",
    ),
    "C12": dict(
        verus=[dict(unit="alarm_table")],
        kani=[dict(crate="nexrad-decode", files=["c12.rs", "wire_layout.rs"], harnesses=[
            dict(name="wire_layout_RdaStatus", what="120 bytes / 60 halfwords, every field at its ICD Table IV position"),
            dict(name="c12_codes_status_words", what="status / operability / control / aux power: documented code -> documented meaning"),
            dict(name="c12_codes_mode_words", what="authorization, mode, super-res, spot blanking, TPS, RMS, perf check, command ack, channel control"),
            dict(name="c12_flags", what="data-transmission, scan/data and alarm-summary flags == documented bit for all 2^16 words"),
            dict(name="c12_scaled", what="raw/100, build-number rule, VCP magnitude/sign"),
            dict(name="c12_cmd_status", what="clutter mitigation decision status codes"),
            dict(name="c12_alarm_list_3", bounded="3 of 14 alarm slots symbolic (first, second, last), the rest zero", what="alarm_messages(): definitions of non-zero codes in message order (quick-tier size of the next harness)"),
            dict(name="c12_alarm_list", tier="thorough", bounded="6 of 14 alarm slots symbolic, the rest zero", what="alarm_messages(): definitions of non-zero codes in message order (get_alarm_message replaced by the contract Verus proves)"),
        ])],
        trusted_base=STD_TRUST + KANI_TRUST + [
            "oracle for 'documented' is the field documentation in /repo (ICD text unavailable offline)",
            "cross-engine hand-over: c12_alarm_list uses a stub with exactly the postcondition Verus proves for get_alarm_message"],
        explanation="Layout by a complete Kani harness through serde/bincode; every coded/flag/scaled accessor over its full "
                    "2^16 domain; the 2374-line alarm match proved by Verus for all u16.",
    ),
    "C13": dict(
        verus=[dict(unit="cfm_decode")],
        kani=[dict(crate="nexrad-decode", files=["c13.rs", "c08s.rs", "wire_layout.rs"], contracts=False, harnesses=[
            dict(name="wire_layout_CfmHeader", what="6-byte header layout"),
            dict(name="wire_layout_AzimuthSegmentHeader", what="2-byte azimuth segment header"),
            dict(name="wire_layout_RangeZone", what="4-byte range zone"),
            dict(name="c13_op_code", what="op codes 0,1,2 -> bypass / bypass map in control / force"),
            dict(name="c08_accessor_cfm_header", what="generation date-time == get_datetime(date, minutes(time))"),
        ])],
        trusted_base=STD_TRUST + KANI_TRUST + ["reader model + deserialize contract (layouts proved by the three layout harnesses)"],
        explanation="decode_clutter_filter_map extracted verbatim; three nested loop invariants over a ghost cursor prove the "
                    "decoded structure == the byte structure (numbering, 360 azimuths, declared zone counts, each zone from its own "
                    "4 bytes) and Err iff the body ends early, for every input.",
    ),
    "C14": dict(
        verus=[dict(unit="summarize")],
        trusted_base=STD_TRUST + [
            "R-enumerate: `for (i, m) in xs.iter().enumerate()` is verified as `for i in 0..xs.len() { let m = &xs[i]; … }` "
            "(Verus has no model of core::iter::Enumerate and the orphan rule forbids adding one)",
            "R-closure-inline: the local FnMut closure increment_count is beta-reduced at its seven call sites (body copied "
            "verbatim; Verus closures cannot capture &mut)",
            "R-shim: `groups.iter().rev().any(|g| radial group of elevation e)` is the assumed contract any_prior(groups, e) "
            "(the rule matches the exact token sequence; any edit of it makes the unit undecided, not passed)",
            "std HashMap<String, usize> looked up by &str: String is a lawful hash key, and Borrow<str> lookups agree with the "
            "key whose characters are equal (axioms axiom_string_key_model, axiom_str_borrow_*, axiom_mk_string_view, axiom_string_ext)",
            "derive(Hash, Eq) on the fieldless enum VolumeCoveragePattern is a lawful hash key (axiom_vcp_key_model)",
            "chrono: DateTime<Utc> carries a millisecond view; PartialOrd compares it; timestamp_millis returns it (stand-in type)",
            "MessageHeader::date_time is the uninterpreted hdr_time(header) (what it is: C08/C10 Kani harnesses)",
            "extract_rda_status_info / extract_vcp_info are uninterpreted functions of their message (their content is not part of C14)",
            "function emitted as summarize_messages (R-rename: a parameter may not shadow the function name in a Verus contract)",
        ],
        not_decided=["the content of RDAStatusInfo / VCPInfo (formatting helpers) and the Display impls of the summary types",
                     "messages whose volume block names a VCP number outside the six the crate defines: "
                     "VolumeDataBlock::volume_coverage_pattern() panics there, so summarize::messages panics too (precondition "
                     "known_vcp; outside the property's stated domain, reported in DESIGN.md section 9.5)"],
        explanation="summarize::messages extracted verbatim (three stated rewrites) and proved for every message list with no length "
                    "bound: the groups tile 0..n in order without gap or overlap; count == span; each group is a run of one "
                    "message type and (radial data) one elevation; status and VCP messages stand alone; adjacent groups could not "
                    "have been merged; is_continued iff an earlier radial group has the same elevation number; first/last azimuths "
                    "and times are those of the first/last member; per-group data-type counts equal the number of members carrying "
                    "the block, with no other keys; latest/earliest collection time are the max/min over timestamped radial and "
                    "status messages (earliest over those after the Unix epoch, as the code filters); the VCP set is exactly the "
                    "set of patterns named by volume blocks.  Domain precondition: contents variant agrees with the header type "
                    "code (what decode_message_contents produces, unit framing) and VCP numbers are among the crate's six.",
    ),
    "C01": dict(
        verus=[dict(unit="volume_scan"), dict(unit="framing"), dict(unit="sweep")],
        trusted_base=STD_TRUST + [
            "bzip2 (C library behind FFI): BzDecoder + read_to_end yield unbz(bytes) or an error",
            "std::io reader model (read_exact consumes exactly |buf| bytes); Cursor::new(data) starts with all of data remaining",
            "decode_messages contract used by volume_scan is the postcondition proved in unit framing (hand-over by identical clause text)",
            "into_radial contract radial_of(m): what it is, is decided by the C07 Kani harnesses",
            "type-31 consumed-length contract (bounded Kani evidence only, C02)",
        ],
        not_decided=[],
        explanation="File::scan, Record::{messages,decompress,compressed,data}, File::records, split_compressed_records, "
                    "Sweep::from_radials, Scan::new, Message::into_contents extracted verbatim (real struct definitions of all "
                    "three crates under their real module paths) and proved: scan == fold of the property's spec over the record "
                    "tiling / unbz / decode_stream / radial_of, sweeps == maximal runs whose concatenation is that radial list, "
                    "VCP number == first VOL block's, Err iff a stage fails or no VOL block exists. No bound on records, "
                    "messages, elevations or radials.",
    ),
    "C02": dict(
        verus=[dict(unit="drd_decode")],
        kani=[dict(crate="nexrad-decode", files=["wire_layout.rs", "drd.rs", "c02.rs"], harnesses=
            layout_h(["DrdHeader", "DataBlockId", "VolumeDataBlock", "ElevationDataBlock", "RadialDataBlock", "GenericDataBlockHeader"]) + [
            dict(name="c02_generic_block_new_len", what="GenericDataBlock::new: gate buffer length == gates x (word_size/8) for all u16 x u8"),
            dict(name="drd_marker_vol", witness=True, bounded="1 block, one symbolic marker byte", tier="thorough", what="VOL block routed to the volume slot only"),
            dict(name="drd_marker_ref", witness=True, bounded="1 block, one symbolic marker byte", tier="thorough", what="REF routed to the reflectivity slot only, marker in header and gate byte"),
            dict(name="drd_marker_vel", witness=True, bounded="1 block, one symbolic marker byte", tier="thorough", what="VEL routing"),
            dict(name="drd_marker_sw", witness=True, bounded="1 block, one symbolic marker byte", tier="thorough", what="SW routing"),
            dict(name="drd_marker_zdr", witness=True, bounded="1 block, one symbolic marker byte", tier="thorough", what="ZDR routing"),
            dict(name="drd_marker_phi", witness=True, bounded="1 block, one symbolic marker byte", tier="thorough", what="PHI routing"),
            dict(name="drd_marker_rho", witness=True, bounded="1 block, one symbolic marker byte", tier="thorough", what="RHO routing"),
            dict(name="drd_marker_cfp", witness=True, bounded="1 block, one symbolic marker byte", tier="thorough", what="CFP routing"),
            dict(name="drd_route_vol", witness=True, bounded="1 block, selected bytes symbolic", tier="thorough", what="VOL block delivered as volume block, others absent, reader ends after block"),
            dict(name="drd_route_elv", witness=True, bounded="1 block, selected bytes symbolic", what="ELV routing"),
            dict(name="drd_route_rad", witness=True, bounded="1 block, selected bytes symbolic", what="RAD routing"),
            dict(name="drd_route_ref", witness=True, bounded="1 block, 2 gates x 8 bit", tier="thorough", what="REF routing, gate bytes intact"),
            dict(name="drd_route_vel", witness=True, bounded="1 block, gates<=2, word 8/16", tier="thorough", what="VEL routing"),
            dict(name="drd_route_sw", witness=True, bounded="1 block, gates<=2, word 8/16", tier="thorough", what="SW routing"),
            dict(name="drd_route_zdr", witness=True, bounded="1 block, gates<=2, word 8/16", tier="thorough", what="ZDR routing"),
            dict(name="drd_route_phi", witness=True, bounded="1 block, gates<=2, word 8/16", tier="thorough", what="PHI routing"),
            dict(name="drd_route_rho", witness=True, bounded="1 block, gates<=2, word 8/16", tier="thorough", what="RHO routing"),
            dict(name="drd_route_cfp", witness=True, bounded="1 block, gates<=2, word 8/16", tier="thorough", what="CFP routing"),
            dict(name="drd_two_blocks_permuted_gap", witness=True, bounded="2 blocks, permuted pointers, 4-byte gap", tier="thorough", what="pointer order != layout order, gap between blocks"),
        ])],
        trusted_base=STD_TRUST + KANI_TRUST + [
            "in-harness Read+Seek slice reader stands for Cursor<&[u8]> (decoder uses only the Read/Seek contract)",
            "absolute reader model of unit drd_decode (rwhole/rpos with Cursor semantics: seek(Start) always Ok, read_exact fails iff too few bytes remain)",
            "deserialize::<T> contract == Wire::parse at the ICD offsets (each layout proved by its wire_layout_* Kani harness; hand-over by the generated table tools/wire.py)",
            "String::from_utf8_lossy on a 3-byte name equals one of the ten literals iff the bytes do (axiom_lossy3_names)",
            "pointer list: `chunks_exact(4).map(from_be_bytes).collect()` is the assumed shim_be_u32s (R-shim; iterator adaptors are outside Verus)",
        ],
        not_decided=["the Verus routing proof meets the per-struct layout harnesses by contract hand-over (Wire::parse of each block is the "
                     "Kani-proved layout), not by one machine-checked chain; the bounded Kani routing harnesses remain as witnesses on the "
                     "compiled crate (thorough tier)"],
        explanation="Every field of every type-31 wire struct proved at its ICD offset through the real serde/bincode path "
                    "for all byte values (complete, Kani); gate-buffer sizing for all u16 x u8 (complete, Kani and Verus); routing is "
                    "proved unbounded by the Verus unit drd_decode: decode_digital_radar_data == drd_spec, a fold over the pointer list "
                    "(any subset, order, duplicates, gaps, backwards pointers, any gate count / word size): each pointer seeks to "
                    "start+ptr, the three-character name selects exactly one slot, absent blocks stay None, gate bytes are the "
                    "gates x word/8 bytes that follow the generic header.",
    ),
    "C07": dict(
        kani=[dict(crate="nexrad-decode", files=["c07.rs"], contracts=False, tag="-callsites", harnesses=[
            dict(name="c07_radial_header_mapping", what="radial() == into_radial() and every reported field (numbers, angles, spacing, one-to-one status, timestamp) for all 32 header bytes"),
            dict(name="c07_radial_moment_wiring", what="every subset of the seven moments: each model moment built from its own block (distinct symbolic scale/offset), absent stays absent, both conversions agree"),
            dict(name="c07_radial_moment_bytes", bounded="2 gates", what="gate bytes carried unchanged into the model radial by both conversions"),
            dict(name="c07_values_formula_points", bounded="1 gate; 5 concrete (scale, offset) points", what="sentinels 0/1, (raw-offset)/scale, scale 0 rule at the decode AND the model level (bit for bit); all 256 raws"),
            dict(name="c07_values_one_per_gate_16bit", bounded="2 gates (16-bit words)", what="exactly one value per gate for 16-bit moments (KNOWN FINDING on the current tree)"),
        ])],
        trusted_base=KANI_TRUST + ["IEEE-754 arithmetic as modelled by CBMC (bit-precise)"],
        not_decided=["gate counts above 2-3 (bounded: the bound only limits std's map/collect unrolling)",
                     "value conversion for (scale, offset) pairs other than the five concrete points: harnesses with symbolic scale "
                     "and offset (symbolic f32 division) did not finish in 40 min each and were withdrawn; the five points cover "
                     "scale 0, integral, fractional, subnormal and negative scales",
                     "16-bit moments: see the known finding"],
        explanation="Radial mapping proved over every header and every moment subset (complete); value conversion proved for all "
                    "256 raw values at five concrete (scale, offset) points, at the decode and the model level bit for bit "
                    "(bounded: one gate, five points); gate bytes carried unchanged (bounded: two gates).",
    ),
    "C04": dict(
        verus=[dict(unit="framing"), dict(unit="drd_decode"), dict(unit="vcp_decode"), dict(unit="cfm_decode")],
        kani=[dict(crate="nexrad-decode", files=["wire_layout.rs", "drd.rs", "c08.rs"], harnesses=
            prefix_h([n for n in DECODE_STRUCTS if n not in ("RdaStatus", "VolumeDataBlock", "VcpElevation")]) +
            prefix_h(["RdaStatus", "VolumeDataBlock", "VcpElevation"], tier="thorough") + [
            dict(name="c08_get_datetime_total", tier="thorough", what="date conversion total on all u16 x u32 / u16 x u16 (10-13 min: thorough tier; in the quick tier the in-domain part is C08's contract harness)"),
            dict(name="drd_q_truncated_a", witness=True, bounded="cuts at 0, 31, 32 of a 48-byte message", termination="unwind 5; the unchanged decoder needs <= 3 iterations per loop", what="truncated type-31 message is an error and decoding ends"),
            dict(name="drd_q_truncated_b", witness=True, tier="thorough", bounded="cuts at 35, 36, 39", termination="unwind 5", what="same (8 min: thorough tier)"),
            dict(name="drd_q_truncated_c", witness=True, bounded="cuts at 40, 47, 1", termination="unwind 5", what="same"),
            dict(name="drd_total_count_extreme", witness=True, bounded="block count 65535, 40-byte input", what="huge block count with short input is an error"),
        ])],
        trusted_base=STD_TRUST + KANI_TRUST + ["reader model (std::io)", "in-harness slice reader for the seeking decoder"],
        not_decided=["peak-memory clause: allocation sizes are functions of 8/16-bit fields (proved for the gate buffer: "
                     "c02_generic_block_new_len; Vec::with_capacity(u16) elsewhere) but an aggregate memory bound is a resource "
                     "property no contract language here expresses",
                     "type-31 totality is proved by unit drd_decode modulo: the name is compared through String::from_utf8_lossy (axiom: a lossy 3-byte name equals one of the ten literals iff its bytes do), the pointer-list iterator chain (R-shim shim_be_u32s) and format! on the error path (shim)"],
        explanation="Absence of panics and termination of decode_messages / decode_message_contents / decode_message_header / "
                    "VCP / clutter-map decoders are by-products of the Verus proofs (every index, slice, overflow and decreases "
                    "obligation) for all inputs; deserialize on every strict prefix of every wire struct is Err by complete Kani "
                    "harnesses; the type-31 decoder is total by the Verus unit drd_decode (every slice index, arithmetic and loop obligation, for every input) with bounded Kani harnesses as witnesses on the compiled crate.",
    ),
    "C15": dict(
        verus=[dict(unit="search_newest"), dict(unit="latest_volume"), dict(unit="search")],
        trusted_base=STD_TRUST + [
            "R-async: the awaited closure future is immediately ready, so the sequential call chain is the semantics (single task, no shared state inside search)",
            "R-mono: V := u64 (upload times are a total order; the code is parametric in V: PartialOrd + Clone)",
            "R-ghost-arg: search takes an extra Ghost(a) argument naming the array the closure presents (erased)",
            "std contracts: VecDeque::{from, is_empty, pop_front, push_back}, Arc, AtomicI32, Option/Result combinators",
            "list_chunks_in_volume(site, v, 1) returns the first chunk of directory v of an abstract bucket, or fails (network: assumed)",
        ],
        not_decided=["the reported call count (an Arc<AtomicI32> incremented once per closure call): its value and the n + O(log n) "
                     "bound are not proved (bounded Kani witness only); the async runtime / reqwest are outside any contract"],
        explanation="search extracted with async/await removed (R-async) and V := u64 (R-mono), statements unchanged. Proved for ALL "
                    "sizes: under the property's hypothesis (one contiguous populated run in rotation order, strictly increasing "
                    "times, target above all) the result is the populated index with the latest time, none iff all empty "
                    "(unit search_newest: BFS coverage invariant + case analysis of the rotated binary search); "
                    "get_latest_volume maps directories 1..=999 <-> indices 0..=998, covers all 999 and returns that directory "
                    "(unit latest_volume, against the search contract); unconditional safety/termination/candidate-only-improves "
                    "(unit search).",
    ),
    "C16": dict(
        verus=[dict(unit="chunk_id"), dict(unit="archive_id")],
        trusted_base=STD_TRUST + [
            "std fmt/parse/slicing on chunk names are ASSUMED (uninterpreted name_of / seq_of / prefix_of with the round-trip axiom)",
            "str::get(range) never panics and, on an ASCII string, returns the characters at those offsets (assume_specification + axiom_get_ascii); "
            "direct str indexing keeps vstd's own precondition, which an arbitrary string cannot meet",
            "chrono NaiveDate/NaiveTime::parse_from_str are total functions of (text, format) (uninterpreted; what they parse is not decided)",
        ],
        not_decided=["what chrono parses from the eight date and six time characters (calendar validity) and the chunk-name string parsers "
                     "(sequence / type from the last characters) on arbitrary Unicode: they rest on std::str and chrono; Verus has no byte-level "
                     "str model and CBMC does not finish on symbolic strings",
                     "archive::list_files key splitting (`split('/').last()`)"],
        explanation="next_chunk / with_sequence / VolumeIndex extracted verbatim (format! through a shim whose precondition pins the "
                    "format string): successor arithmetic, type-letter choice, site/volume/prefix preservation, never volume 0 or "
                    "1000; lemma: successor is +1 modulo 54945 on the 999 x 55 grid, hence one cycle visiting every position once.  "
                    "archive::Identifier::{new,name,site,date_time} extracted verbatim: site == bytes 0..4, date_time == the two "
                    "parsers applied to bytes 4..12 and 13..19, none when a slice does not exist or does not parse, no panic for any "
                    "string; lemma: for an ASCII name of at least 19 characters these are exactly characters 0..4, 4..12 and 13..19.",
    ),
    "C19": dict(
        verus=[dict(unit="elevation_from_chunk"), dict(unit="estimate")],
        trusted_base=STD_TRUST + [
            "chrono: DateTime/Duration carry a millisecond view; `add`/`+=` add, Duration::seconds(n) is 1000 n ms (assumed; stand-in types)",
            "ChunkTimingStats::get_average_{timing,attempts} are uninterpreted means of the recorded window (HashMap<_, VecDeque<_>> and iterator sums are outside Verus; the rolling window of ten is NOT decided)",
            "`x as i64` on f64 through a shim (Verus leaves executable float casts uninterpreted)",
        ],
        not_decided=["rolling window: that the mean is taken over the last ten recorded samples of the same characteristics "
                     "(add_timing's push_back/pop_front on a HashMap entry) is assumed, not proved"],
        explanation="get_elevation_from_chunk: result == cut_of(sequence, cuts) for all cut lists and sequences >= 1, monotone (lemma). "
                    "estimate_next_chunk_time and get_default_wait_time extracted verbatim: none iff the sequence is outside 1..=55 or "
                    "the next chunk has no cut; +10 s after an end chunk; previous upload time plus history mean plus (mean attempts - 1) s "
                    "when both exist, else 11/7/4 s by waveform/phase; lemma: never earlier than the previous upload time.",
    ),
}

NOT_APPLICABLE = {
    "C17": "behaviour lives in reqwest (async HTTP) and xml-rs behind a network boundary; no function contract within reach "
           "of Verus or Kani expresses 'for every bucket content' (DESIGN.md section 6)",
    "C18": "whole-history property over schedules, virtual time, retries and channels in an async loop; contracts here have "
           "no concurrency/liveness vocabulary and Kani has no async runtime (DESIGN.md section 6)",
    "C20": "a property of the build-configuration space (feature powerset), decided by running the compiler; there is no "
           "function to put a contract on (DESIGN.md section 6)",
}
