"""Which units / harnesses decide which property.  (The *contracts* live in units/ and kani/.)"""

STD_TRUST = [
    "Verus 0.2026.09.13 + Z3 (soundness of the verifier, vstd specs of Vec/Option/slice/iterators)",
    "rustc: the extracted text compiles to the same semantics inside verus!{} as in the crate",
]
KANI_TRUST = [
    "Kani 0.68 / CBMC 6.11 (bit-precise symbolic execution of the real crate MIR; SAT back end)",
]

CHECKS = {
    "C09": dict(
        verus=[dict(unit="sweep")],
        trusted_base=STD_TRUST + [
            "assumed std contracts: Vec::extend appends the iterator's items in order; slice::sort_by_key is a stable sort by key",
        ],
        not_decided=[],
        explanation="Sweep::from_radials and Sweep::merge are extracted verbatim from nexrad-model and proved against "
                    "postconditions taken from the property text (concatenation == input, non-empty uniform maximal runs; "
                    "merge == stable azimuth-ordered union / Err on mismatch) for all sequences, no bound.",
    ),
    "C10": dict(
        verus=[dict(unit="framing", functions=["MessageHeader::"])],
        kani=[dict(crate="nexrad-decode", files=["c10.rs"], harnesses=[
            dict(name="c10_layout_message_header", what="8 header fields at ICD offsets 12,14,15,16,18,20,24,26 through the real serde/bincode path, all 2^224 byte values"),
            dict(name="c10_type_map", what="message_type() for all 256 codes vs ICD Table I; Unknown(code) preserved; distinct codes distinct types"),
            dict(name="c10_redundant_channel", what="six defined redundant-channel codes"),
            dict(name="c10_size_rule", what="segmented/size/count/number semantics for all u16^3, no overflow"),
            dict(name="c10_size_agree", what="uom-typed and plain size accessors agree for all u16^3"),
        ])],
        trusted_base=STD_TRUST + KANI_TRUST,
        explanation="Every harness is loop-free over the full field domain (complete, no unwinding bound); the header "
                    "accessors are additionally proved by Verus on the extracted text (fast first stage).",
    ),
    "C03": dict(
        verus=[dict(unit="framing")],
        trusted_base=STD_TRUST + [
            "reader model: Read::read_exact consumes exactly |buf| bytes or fails when fewer remain (std::io contract for &[u8]/Cursor)",
            "util::deserialize::<_, MessageHeader> reads 28 bytes at the ICD offsets (proved by Kani harness c10_layout_message_header)",
            "decode_digital_radar_data consumes spec_drd(bytes).1 bytes on Ok (checked only by the bounded C02 routing harnesses)",
        ],
        not_decided=["that a type-31 message with contiguous blocks in pointer order consumes exactly its own length "
                     "(assumed contract of decode_digital_radar_data; bounded evidence under C02)"],
        explanation="decode_messages / decode_message_contents / decode_message_header extracted verbatim; postcondition "
                    "result == spec_stream(bytes) for all byte streams and all 256 type codes, loop invariant over a ghost "
                    "cursor, termination by remaining length.",
    ),
    "C05": dict(
        verus=[dict(unit="container")],
        trusted_base=STD_TRUST + ["i32::from_be_bytes / unsigned_abs std contracts; [u8]==[u8;N] compares contents"],
        not_decided=["decompress(record built from payload) == payload: reduces to bzip2's own round trip (C library behind FFI)",
                     ],
        explanation="split_compressed_records, File::records, Record::{new,from_slice,data,compressed}, Chunk::{new,data} "
                    "extracted verbatim; record list == tile(bytes) for every byte string and lemma_tile_wf: for "
                    "well-formed data the records concatenate to the data and each is prefix+|size| bytes.",
    ),
    "C06": dict(
        verus=[dict(unit="container")],
        trusted_base=STD_TRUST + ["i32::from_be_bytes / unsigned_abs std contracts; [u8]==[u8;N] compares contents"],
        not_decided=["Debug formatting plumbing (std::fmt builders) and bzip2 returning Err on corrupt streams are assumed"],
        explanation="Same unit as C05 without the well-formedness hypothesis: no slice/index/overflow obligation can fail and "
                    "the loop terminates for every byte string.",
    ),
}

NOT_APPLICABLE = {
    "C14": "summarize::messages is one 200-line function over Enumerate/any/FnMut-capturing closures/HashMap/HashSet/chrono: "
           "Verus rejects the constructs (rewriting would verify a look-alike) and Kani did not finish on 3 symbolic "
           "messages in 20 min / 5.7 GB; no contract within reach of either engine decides it (DESIGN.md section 6)",
    "C17": "behaviour lives in reqwest (async HTTP) and xml-rs behind a network boundary; no function contract within reach "
           "of Verus or Kani expresses 'for every bucket content' (DESIGN.md section 6)",
    "C18": "whole-history property over schedules, virtual time, retries and channels in an async loop; contracts here have "
           "no concurrency/liveness vocabulary and Kani has no async runtime (DESIGN.md section 6)",
    "C20": "a property of the build-configuration space (feature powerset), decided by running the compiler; there is no "
           "function to put a contract on (DESIGN.md section 6)",
}
