"""Which units / harnesses decide which property.  (The *contracts* live in units/ and kani/.)"""

STD_TRUST = [
    "Verus 0.2026.09.13 + Z3 (soundness of the verifier, vstd specs of Vec/Option/slice/iterators)",
    "rustc: the extracted text compiles to the same semantics inside verus!{} as in the crate",
]
KANI_TRUST = [
    "Kani 0.68 / CBMC 6.11 (bit-precise symbolic execution of the real crate MIR; SAT back end)",
]

CHECKS = {
    "C09": dict(
        verus=[dict(unit="sweep")],
        trusted_base=STD_TRUST + [
            "assumed std contracts: Vec::extend appends the iterator's items in order; slice::sort_by_key is a stable sort by key",
        ],
        not_decided=[],
        explanation="Sweep::from_radials and Sweep::merge are extracted verbatim from nexrad-model and proved against "
                    "postconditions taken from the property text (concatenation == input, non-empty uniform maximal runs; "
                    "merge == stable azimuth-ordered union / Err on mismatch) for all sequences, no bound.",
    ),
}
