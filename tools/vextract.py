#!/usr/bin/env python3
"""vextract: mechanical extraction of real /repo items into one Verus file per contract unit.

For each unit (a directory with unit.toml, prelude.rs, optional prelude_head.rs and splices/*.vs)
the named items are located in the *current* working tree of the repository with a Rust-aware
tokenizer, copied verbatim, passed through the rewrite rules enabled for the unit (each rule is
pattern-based and counted), and contract text is spliced at syntactic anchors (signature, entry,
loop ordinal, statement prefix).  The output carries a line map back to the repository so that
verifier messages are reported against /repo.

Everything that is changed or dropped is listed in DESIGN.md section 2.1 and counted in
`Extraction.rewrites`.  If an anchor or item cannot be found the extraction fails closed
(ExtractError -> the check exits 2, never a VIOLATION).
"""
import hashlib
import os
import re
import sys
import tomllib

sys.path.insert(0, os.path.dirname(os.path.abspath(__file__)))
from rustlex import lex, match_brackets, line_of, LexError  # noqa: E402


class ExtractError(Exception):
    pass


LOG_MACROS = {"trace", "debug", "info", "warn", "error"}
# calls that may appear inside deleted log statements / log-only bindings: pure getters only
LOG_CALL_ALLOW = {
    "len", "stream_position", "message_type", "header", "name", "as_str", "sequence", "volume",
    "site", "chunk_type", "date_time", "elevation_number", "format", "to_string", "is_some",
    "is_none", "num_milliseconds", "num_seconds", "as_number", "upload_date_time", "identifier",
    "Some", "Ok", "Err", "unwrap_or", "unwrap_or_default", "clone", "get", "as_ref",
    "signed_duration_since", "now",
}
KEEP_DERIVES = ["Clone", "Copy", "PartialEq", "Eq"]


class Source:
    def __init__(self, repo, rel):
        self.rel = rel
        self.path = os.path.join(repo, rel)
        try:
            self.src = open(self.path, encoding="utf-8").read()
        except OSError as e:
            raise ExtractError("cannot read %s: %s" % (rel, e))
        try:
            self.toks = lex(self.src)
            self.br = match_brackets(self.toks)
        except LexError as e:
            raise ExtractError("cannot tokenize %s: %s" % (rel, e))

    def depth_ranges(self, lo, hi):
        """indices of tokens in [lo,hi) that are at bracket depth 0 relative to lo"""
        i = lo
        while i < hi:
            yield i
            t = self.toks[i]
            if t.kind == "punct" and t.text in "([{" and i in self.br:
                i = self.br[i] + 1
            else:
                i += 1


def _norm_header(toks):
    """normalise an impl header: drop generics/lifetimes: `impl<'a> Record<'a>` -> `Record`"""
    out, depth, prev = [], 0, None
    for t in toks:
        if t.kind == "punct" and t.text == "<":
            depth += 1
        elif t.kind == "punct" and t.text == ">" and not (prev and prev.text == "-"):
            depth -= 1
        elif depth == 0 and t.kind in ("ident",) and t.text not in ("impl",):
            out.append(t.text)
        elif depth == 0 and t.kind == "punct" and t.text == ":":
            out.append(":")
        prev = t
    s = " ".join(out)
    return s.replace(" : : ", "::").replace(": :", "::")


class Item:
    def __init__(self, src, kind, name, lo, hi, impl_header=None, body_open=None, kw=None):
        self.src, self.kind, self.name = src, kind, name
        self.lo, self.hi = lo, hi  # token index range [lo, hi]
        self.impl_header = impl_header  # text of `impl ... ` before `{`
        self.body_open = body_open  # token idx of fn body `{` (fns only)
        self.kw = kw  # token idx of the keyword (fn/struct/…)


def _item_start(S, kw_idx, floor):
    """walk back from the keyword over visibility / qualifiers / attributes"""
    i = kw_idx
    toks = S.toks
    while i - 1 >= floor:
        p = toks[i - 1]
        if p.kind == "ident" and p.text in ("pub", "async", "const", "unsafe", "extern", "default"):
            i -= 1
            continue
        if p.kind == "punct" and p.text == ")" and (i - 1) in S.br:
            o = S.br[i - 1]
            if o - 1 >= floor and toks[o - 1].kind == "ident" and toks[o - 1].text == "pub":
                i = o - 1
                continue
        if p.kind == "punct" and p.text == "]" and (i - 1) in S.br:
            o = S.br[i - 1]
            if o - 1 >= floor and toks[o - 1].text == "#":
                i = o - 1
                continue
        break
    return i


def _skip_generics(S, i):
    """if toks[i] is '<', return index after the matching '>'"""
    toks = S.toks
    if not (toks[i].kind == "punct" and toks[i].text == "<"):
        return i
    depth = 0
    while True:
        t = toks[i]
        if t.kind == "punct" and t.text == "<":
            depth += 1
        elif t.kind == "punct" and t.text == ">" and not (toks[i - 1].text == "-" and toks[i - 1].end == t.start):
            depth -= 1
            if depth == 0:
                return i + 1
        elif t.kind == "punct" and t.text in "([{":
            i = S.br[i]
        i += 1


def _find_in_container(S, lo, hi, kind, name, floor):
    """find `kind name` among the depth-0 tokens of [lo,hi)"""
    toks = S.toks
    for i in S.depth_ranges(lo, hi):
        t = toks[i]
        if t.kind == "ident" and t.text == kind and i + 1 < hi and toks[i + 1].kind == "ident" \
                and toks[i + 1].text == name:
            start = _item_start(S, i, floor)
            if kind == "fn":
                j = _skip_generics(S, i + 2)
                if toks[j].text != "(":
                    raise ExtractError("fn %s: parameter list not found" % name)
                j = S.br[j] + 1
                while j < hi and not (toks[j].kind == "punct" and toks[j].text in "{;"):
                    if toks[j].kind == "punct" and toks[j].text in "([":
                        j = S.br[j]
                    j += 1
                if toks[j].text == ";":
                    return Item(S, kind, name, start, j, kw=i)
                return Item(S, kind, name, start, S.br[j], body_open=j, kw=i)
            if kind in ("struct", "enum", "union", "trait"):
                j = i + 2
                while not (toks[j].kind == "punct" and toks[j].text in "{;"):
                    if toks[j].kind == "punct" and toks[j].text in "([":
                        j = S.br[j]
                    j += 1
                end = j if toks[j].text == ";" else S.br[j]
                return Item(S, kind, name, start, end, kw=i)
            if kind in ("const", "type", "static"):
                j = i + 2
                while not (toks[j].kind == "punct" and toks[j].text == ";"):
                    if toks[j].kind == "punct" and toks[j].text in "([{":
                        j = S.br[j]
                    j += 1
                return Item(S, kind, name, start, j, kw=i)
    return None


def find_item(S, select, module=None):
    """select: 'struct X' | 'enum X' | 'const X' | 'type X' | 'fn f' | 'fn T::m' | 'fn <Trait for T>::m'"""
    toks = S.toks
    lo, hi = 0, len(toks)
    if module:
        for m in module.split("::"):
            found = None
            for i in S.depth_ranges(lo, hi):
                if toks[i].kind == "ident" and toks[i].text == "mod" and toks[i + 1].text == m \
                        and toks[i + 2].text == "{":
                    found = (i + 3, S.br[i + 2])
                    break
            if not found:
                raise ExtractError("module %s not found in %s" % (module, S.rel))
            lo, hi = found
    kind, _, name = select.partition(" ")
    name = name.strip()
    if kind == "fn" and "::" in name:
        owner, _, meth = name.rpartition("::")
        owner = owner.strip()
        if owner.startswith("<") and owner.endswith(">"):
            owner = owner[1:-1].strip()
        want = re.sub(r"\s+", " ", owner)
        for i in S.depth_ranges(lo, hi):
            if toks[i].kind == "ident" and toks[i].text == "impl":
                j = i + 1
                while not (toks[j].kind == "punct" and toks[j].text == "{"):
                    if toks[j].kind == "punct" and toks[j].text in "([":
                        j = S.br[j]
                    j += 1
                header = _norm_header(toks[i:j])
                if header == want:
                    it = _find_in_container(S, j + 1, S.br[j], "fn", meth, j + 1)
                    if it:
                        # header text with `impl` generics preserved, attributes excluded
                        it.impl_header = S.src[toks[i].start:toks[j].start].strip()
                        return it
        raise ExtractError("method %s not found in %s" % (name, S.rel))
    it = _find_in_container(S, lo, hi, kind, name, lo)
    if not it:
        raise ExtractError("item `%s` not found in %s" % (select, S.rel))
    return it


# ------------------------------------------------------------------------------------------------
# splice files

class Splice:
    def __init__(self, path):
        self.path = path
        self.sections = []  # (anchor, opts, text)
        cur = None
        for line in open(path, encoding="utf-8").read().splitlines():
            if line.startswith("@"):
                m = re.match(r'@(\S+)(.*)$', line)
                if not m:
                    raise ExtractError("bad splice header in %s: %s" % (path, line))
                parts = re.findall(r'(?:\w+=)?"[^"]*"|\S+', m.group(2))
                cur = [m.group(1), parts, []]
                self.sections.append(cur)
            elif cur is not None:
                cur[2].append(line)
            elif line.strip() and not line.strip().startswith("//"):
                raise ExtractError("text before first anchor in %s" % path)


def _decode_byte_string(lit):
    body = lit[2:-1]
    out, i = [], 0
    esc = {"n": 10, "r": 13, "t": 9, "\\": 92, "0": 0, '"': 34, "'": 39}
    while i < len(body):
        c = body[i]
        if c == "\\":
            n = body[i + 1]
            if n == "x":
                out.append(int(body[i + 2:i + 4], 16))
                i += 4
            elif n in esc:
                out.append(esc[n])
                i += 2
            else:
                raise ExtractError("unsupported escape in byte string %s" % lit)
        else:
            if ord(c) > 127:
                raise ExtractError("non-ASCII byte string %s" % lit)
            out.append(ord(c))
            i += 1
    return out


def _blank(text):
    """whitespace of the same shape (keeps newlines so that line numbers stay aligned)"""
    return "".join(ch if ch == "\n" else " " for ch in text)


class Extraction:
    def __init__(self, repo, unit_dir):
        self.repo = repo
        self.unit_dir = unit_dir
        self.spec = tomllib.load(open(os.path.join(unit_dir, "unit.toml"), "rb"))
        self.name = self.spec["name"]
        self.rules = set(self.spec.get("rules", ["R-vis", "R-attr", "R-log", "R-use"]))
        self.rewrites = {}  # rule -> count
        self.rewrite_log = []  # human readable occurrences
        self.functions = []  # functions under contract: dict(path, file, line, sha256)
        self.chunks = []  # (text, origin_file|None, origin_line|None)
        self.sources = {}
        self.clauses = 0  # number of spliced requires/ensures/invariant/decreases clauses

    def count(self, rule, what=None, n=1):
        self.rewrites[rule] = self.rewrites.get(rule, 0) + n
        if what:
            self.rewrite_log.append("%s: %s" % (rule, what))

    def source(self, rel):
        if rel not in self.sources:
            self.sources[rel] = Source(self.repo, rel)
        return self.sources[rel]

    # -- rewriting one item ----------------------------------------------------------------------
    def render(self, it, entry):
        S, toks = it.src, it.src.toks
        lo_pos, hi_pos = toks[it.lo].start, toks[it.hi].end
        edits = []  # (start, end, replacement, is_insert)

        def delete(a, b, rule, what=None):
            edits.append((a, b, _blank(S.src[a:b])))
            self.count(rule, what)

        def insert(pos, text):
            edits.append((pos, pos, text))

        idxs = range(it.lo, it.hi + 1)
        deleted_tok = set()

        # R-attr: attributes (keep repr, reduce derive)
        if "R-attr" in self.rules:
            for i in idxs:
                t = toks[i]
                if t.kind == "punct" and t.text == "#" and i + 1 <= it.hi:
                    j = i + 1
                    if toks[j].text == "!":
                        j += 1
                    if toks[j].text == "[" and j in S.br:
                        k = S.br[j]
                        head = toks[j + 1].text if j + 1 < k else ""
                        if head == "repr":
                            continue
                        if head == "derive":
                            names = [x.text for x in toks[j + 3:S.br[j + 2]] if x.kind == "ident"]
                            # last path segment of each derive
                            segs, cur = [], None
                            for x in toks[j + 3:S.br[j + 2]]:
                                if x.kind == "ident":
                                    cur = x.text
                                elif x.text == ",":
                                    segs.append(cur)
                                    cur = None
                            if cur:
                                segs.append(cur)
                            keep = [d for d in segs if d in entry.get("derive_keep", KEEP_DERIVES)] + list(entry.get("derive_add", []))
                            new = "#[derive(%s)]" % ", ".join(keep) if keep else ""
                            old = S.src[t.start:toks[k].end]
                            pad = _blank(old)
                            # keep line structure: replacement then the newlines of the original
                            edits.append((t.start, toks[k].end, new + "\n" * pad.count("\n")))
                            if sorted(keep) != sorted(names):
                                self.count("R-attr", "derive(%s) -> derive(%s) on %s" % (
                                    ",".join(segs), ",".join(keep), it.name))
                            for x in range(i, k + 1):
                                deleted_tok.add(x)
                            continue
                        delete(t.start, toks[k].end, "R-attr")
                        for x in range(i, k + 1):
                            deleted_tok.add(x)

        # R-vis
        if "R-vis" in self.rules and not entry.get("wrap_mod"):
            for i in idxs:
                t = toks[i]
                if i in deleted_tok:
                    continue
                if t.kind == "ident" and t.text == "pub":
                    end = t.end
                    if toks[i + 1].text == "(" and toks[i + 2].text in ("crate", "super", "in", "self"):
                        end = toks[S.br[i + 1]].end
                    delete(t.start, end, "R-vis")

        # R-pub (items placed in a wrapper module): every item and field becomes `pub`
        if entry.get("wrap_mod"):
            for i in idxs:
                t = toks[i]
                if i in deleted_tok:
                    continue
                if t.kind == "ident" and t.text == "pub":
                    end = t.end
                    if toks[i + 1].text == "(" and toks[i + 2].text in ("crate", "super", "in", "self"):
                        end = toks[S.br[i + 1]].end
                    edits.append((t.start, end, _blank(S.src[t.start:end])))
            first = it.kw
            while first - 1 >= it.lo and toks[first - 1].kind == "ident" and \
                    toks[first - 1].text in ("async", "const", "unsafe", "extern", "default"):
                first -= 1
            is_trait_impl = bool(it.impl_header and re.search(r"\bfor\b", it.impl_header))
            if not is_trait_impl:
                insert(toks[first].start, "pub(crate) ")
            if it.kind == "struct":
                j = it.kw + 2
                j = _skip_generics(S, j)
                if toks[j].text in "({":
                    close = S.br[j]
                    k = j + 1
                    expect_field = True
                    while k < close:
                        if k in deleted_tok:
                            k += 1
                            continue
                        if expect_field and not (toks[k].kind == "ident" and toks[k].text == "pub"):
                            if toks[k].text == "#":
                                k = S.br[k + 1] + 1
                                continue
                            insert(toks[k].start, "pub(crate) ")
                            expect_field = False
                        elif expect_field:
                            # skip the existing (blanked) pub
                            k += 1
                            if toks[k].text == "(" and toks[k + 1].text in ("crate", "super", "in", "self"):
                                k = S.br[k] + 1
                            insert(toks[k].start, "pub(crate) ")
                            expect_field = False
                        if toks[k].text in "([{<" and toks[k].text != "<":
                            k = S.br[k]
                        elif toks[k].text == ",":
                            expect_field = True
                        k += 1
            self.count("R-pub", None)

        removed_spans = []
        if it.kind == "fn" and it.body_open is not None:
            b0, b1 = it.body_open, it.hi
            # R-use: `use …;` inside bodies
            if "R-use" in self.rules:
                for i in range(b0 + 1, b1):
                    if toks[i].kind == "ident" and toks[i].text == "use" and toks[i - 1].text in "{};":
                        j = i
                        while toks[j].text != ";":
                            j += 1
                        delete(toks[i].start, toks[j].end, "R-use", S.src[toks[i].start:toks[j].end])
                        removed_spans.append((i, j))
            # R-log
            if "R-log" in self.rules:
                log_idents = {}
                for i in range(b0 + 1, b1):
                    t = toks[i]
                    if t.kind == "ident" and t.text in LOG_MACROS and toks[i + 1].text == "!" \
                            and toks[i + 2].text == "(" and toks[i - 1].text in "{};":
                        k = S.br[i + 2]
                        if toks[k + 1].text != ";":
                            continue
                        self._check_log_calls(S, i + 3, k, it.name)
                        delete(t.start, toks[k + 1].end, "R-log",
                               "%s:%d %s!(…)" % (S.rel, line_of(S.src, t.start), t.text))
                        removed_spans.append((i, k + 1))
                        for x in toks[i + 3:k]:
                            if x.kind == "ident":
                                log_idents[x.text] = log_idents.get(x.text, 0) + 1
                # log-only let bindings
                if log_idents:
                    def in_removed(x):
                        return any(a <= x <= b for a, b in removed_spans)
                    for i in range(b0 + 1, b1):
                        if toks[i].kind == "ident" and toks[i].text == "let" and toks[i - 1].text in "{};" \
                                and not in_removed(i):
                            j = i + 1
                            if toks[j].text == "mut":
                                j += 1
                            nm = toks[j]
                            if nm.kind != "ident" or nm.text not in log_idents or toks[j + 1].text != "=":
                                continue
                            e = j
                            while toks[e].text != ";":
                                if toks[e].text in "([{":
                                    e = S.br[e]
                                e += 1
                            uses = sum(1 for x in range(b0 + 1, b1)
                                       if toks[x].kind == "ident" and toks[x].text == nm.text
                                       and not in_removed(x) and not (i <= x <= e))
                            if uses == 0:
                                self._check_log_calls(S, j + 2, e, it.name)
                                delete(toks[i].start, toks[e].end, "R-log",
                                       "%s:%d log-only binding `%s`" % (S.rel, line_of(S.src, toks[i].start),
                                                                         S.src[toks[i].start:toks[e].end]))
                                removed_spans.append((i, e))

        # R-bytes: byte-string literal b"…" -> &[b0u8, b1u8, …] (same type &[u8; N], same value)
        if "R-bytes" in self.rules:
            for i in idxs:
                t = toks[i]
                if t.kind == "str" and t.text.startswith('b"') and not any(a <= i <= b for a, b in removed_spans):
                    bs = _decode_byte_string(t.text)
                    edits.append((t.start, t.end, "&[" + ", ".join("%du8" % b for b in bs) + "]"))
                    self.count("R-bytes", "%s:%d %s" % (S.rel, line_of(S.src, t.start), t.text))

        # R-strmatch: a string-literal match pattern `"LIT" =>` becomes the binding pattern with an equality guard
        # `__m if __m == "LIT" =>` (same semantics: string patterns compare by equality, arms are tried in order, the
        # scrutinee is evaluated once).  Verus knows only "matched => equal" for literal patterns but both directions
        # for `==` on &str, so the wildcard arm loses nothing.
        if "R-strmatch" in self.rules:
            for i in idxs:
                t = toks[i]
                if t.kind == "str" and t.text.startswith('"') and i + 2 <= it.hi and toks[i + 1].text == "=" \
                        and toks[i + 2].text == ">" and toks[i + 1].end == toks[i + 2].start \
                        and not any(a <= i <= b for a, b in removed_spans):
                    edits.append((t.start, t.end, "__m if __m == %s" % t.text))
                    self.count("R-strmatch", "%s:%d %s =>" % (S.rel, line_of(S.src, t.start), t.text))

        claimed = set()  # token indices already rewritten by an earlier rule (rules apply in file order)

        # R-enumerate: `for (I, X) in E.iter().enumerate() {` becomes `for I in 0..E.len() { let X = &E[I];` — the
        # definition of slice iteration with a counter (Verus has no model of core::iter::Enumerate and the orphan rule
        # forbids adding one).  E must be a plain path; the body is untouched.
        if "R-enumerate" in self.rules and it.kind == "fn" and it.body_open is not None:
            for (kw, op, cl, in_idx) in self._loops(it):
                if toks[kw].text != "for" or in_idx is None:
                    continue
                tail = [x.text for x in toks[op - 8:op]]
                if tail != [".", "iter", "(", ")", ".", "enumerate", "(", ")"]:
                    continue
                pat = toks[kw + 1:in_idx]
                if not (len(pat) == 5 and pat[0].text == "(" and pat[2].text == "," and pat[4].text == ")"
                        and pat[1].kind == "ident" and pat[3].kind == "ident"):
                    raise ExtractError("R-enumerate: unsupported loop pattern in %s" % it.name)
                e0, e1 = in_idx + 1, op - 9
                if not all(x.kind == "ident" or x.text in (".", "::") for x in toks[e0:e1 + 1]):
                    raise ExtractError("R-enumerate: iterated expression is not a plain path in %s" % it.name)
                expr = S.src[toks[e0].start:toks[e1].end]
                I, X = pat[1].text, pat[3].text
                edits.append((pat[0].start, pat[4].end, I))
                edits.append((toks[e0].start, toks[op - 1].end, "0..%s.len()" % expr))
                insert(toks[op].end, " let %s = &%s[%s];" % (X, expr, I))
                claimed.update(range(kw + 1, in_idx))
                claimed.update(range(e0, op))
                self.count("R-enumerate", "%s:%d for (%s, %s) in %s.iter().enumerate()" % (
                    S.rel, line_of(S.src, toks[kw].start), I, X, expr))

        # R-closure-inline: a local closure `let mut NAME = |p: T, …| { BODY };` that captures a `&mut` (which Verus
        # closures cannot) is removed and every call `NAME(args)` becomes `{ let p: T = arg; … BODY }` with BODY copied
        # verbatim from the source (beta reduction of a non-escaping closure without `return`).
        for cname in entry.get("inline_closures", []):
            if it.kind != "fn" or it.body_open is None:
                break
            found = None
            for (p0, p1, b0, b1) in self._closures(it):
                if toks[p0 - 1].text == "=" and toks[p0 - 2].text == cname and toks[b0].text == "{" \
                        and toks[b1 + 1].text == ";":
                    ls = p0 - 3
                    if toks[ls].text == "mut":
                        ls -= 1
                    if toks[ls].text != "let":
                        continue
                    found = (ls, p0, p1, b0, b1)
                    break
            if not found:
                raise ExtractError("R-closure-inline: closure `%s` not found in %s" % (cname, it.name))
            ls, p0, p1, b0, b1 = found
            params, cur = [], []
            for x in toks[p0 + 1:p1]:
                if x.text == ",":
                    params.append(cur)
                    cur = []
                else:
                    cur.append(x)
            if cur:
                params.append(cur)
            ptxt = [S.src[p[0].start:p[-1].end] for p in params]
            if any(":" not in p for p in ptxt):
                raise ExtractError("R-closure-inline: untyped parameter of `%s` in %s" % (cname, it.name))
            body = S.src[toks[b0].end:toks[b1].start]
            if any(x.kind == "ident" and x.text == "return" for x in toks[b0:b1]):
                raise ExtractError("R-closure-inline: `return` inside closure `%s`" % cname)
            edits.append((toks[ls].start, toks[b1 + 1].end, _blank(S.src[toks[ls].start:toks[b1 + 1].end])))
            claimed.update(range(ls, b1 + 2))
            ncalls = 0
            for i in range(b1 + 2, it.hi):
                if toks[i].kind == "ident" and toks[i].text == cname and toks[i + 1].text == "(" and toks[i - 1].text != ".":
                    c = S.br[i + 1]
                    args, cur, k = [], None, i + 2
                    a0 = k
                    while k < c:
                        if toks[k].text in "([{":
                            k = S.br[k]
                        elif toks[k].text == ",":
                            args.append(S.src[toks[a0].start:toks[k - 1].end])
                            a0 = k + 1
                        k += 1
                    if a0 < c:
                        args.append(S.src[toks[a0].start:toks[c - 1].end])
                    if len(args) != len(ptxt):
                        raise ExtractError("R-closure-inline: arity mismatch calling `%s` in %s" % (cname, it.name))
                    lets = " ".join("let %s = %s;" % (p, a) for p, a in zip(ptxt, args))
                    edits.append((toks[i].start, toks[c].end, "{ %s %s }" % (lets, " ".join(body.split()))))
                    claimed.update(range(i, c + 1))
                    ncalls += 1
                elif toks[i].kind == "ident" and toks[i].text == cname:
                    raise ExtractError("R-closure-inline: closure `%s` escapes in %s" % (cname, it.name))
            self.count("R-closure-inline", "%s:%d closure `%s` inlined at %d call sites" % (
                S.rel, line_of(S.src, toks[ls].start), cname, ncalls))

        # token-sequence replacements (R-shim / R-async / R-mono are expressed this way)
        for rep in self.spec.get("replace", []):
            if "only" in rep and it.name not in rep["only"]:
                continue
            pat = [t.text for t in lex(rep["from"])]
            n = len(pat)
            i = it.lo
            while i + n - 1 <= it.hi:
                if [t.text for t in toks[i:i + n]] == pat and not any(a <= i <= b for a, b in removed_spans) \
                        and not any(x in claimed for x in range(i, i + n)):
                    claimed.update(range(i, i + n))
                    edits.append((toks[i].start, toks[i + n - 1].end, rep["to"]))
                    self.count(rep.get("rule", "R-shim"),
                               "%s:%d `%s` -> `%s`" % (S.rel, line_of(S.src, toks[i].start), rep["from"], rep["to"]))
                    i += n
                else:
                    i += 1

        # splices
        if entry.get("splice"):
            spn = entry["splice"]
            if ":" in spn:
                u, spn = spn.split(":", 1)
                sp = Splice(os.path.join(os.path.dirname(self.unit_dir.rstrip("/")), u, "splices", spn + ".vs"))
            else:
                sp = Splice(os.path.join(self.unit_dir, "splices", spn + ".vs"))
            self._apply_splice(it, sp, insert, edits)

        # apply edits
        edits.sort(key=lambda e: (e[0], e[1]))
        out, pos = [], lo_pos
        for a, b, rep in edits:
            if a < pos:
                raise ExtractError("overlapping edits in %s::%s at byte %d" % (S.rel, it.name, a))
            if a > pos:
                out.append((S.src[pos:a], S.rel, line_of(S.src, pos)))
            if a == b:
                out.append((rep, None, None))
            else:
                out.append((rep, S.rel, line_of(S.src, a)))
            pos = b
        if pos < hi_pos:
            out.append((S.src[pos:hi_pos], S.rel, line_of(S.src, pos)))
        return out

    def _derive_from(self, it):
        """R-derive: the `impl From<T> for Enum` that thiserror generates for each `#[from]` variant"""
        S, toks = it.src, it.src.toks
        out = []
        i = it.kw + 2
        while toks[i].text != "{":
            i += 1
        end = S.br[i]
        j = i + 1
        while j < end:
            t = toks[j]
            if t.kind == "ident" and toks[j + 1].text == "(" and toks[j - 1].text in ("{", ",", "]"):
                close = S.br[j + 1]
                inner = toks[j + 2:close]
                if len(inner) > 4 and inner[0].text == "#" and inner[2].text == "from":
                    ty = S.src[inner[4].start:toks[close - 1].end]
                    out.append("impl From<%s> for %s {\n    #[verifier::external_body]\n    fn from(e: %s) -> Self { %s::%s(e) }\n}\n"
                               % (ty, it.name, ty, it.name, t.text))
                    self.count("R-derive", "impl From<%s> for %s (thiserror #[from])" % (ty, it.name))
                j = close
            j += 1
        return "".join(out)

    def _expand_wildcards(self, entries):
        """`select = "impl T *"`: every method of T's inherent impl blocks that is not cfg-gated, not excluded and
        not listed explicitly elsewhere in the unit (so edits that start calling another accessor still resolve)"""
        explicit = {(e.get("file"), e.get("select")) for e in entries if "select" in e}
        out = []
        for e in entries:
            sel = e.get("select", "")
            m = re.match(r"impl (.+) \*$", sel)
            if not m:
                out.append(e)
                continue
            owner = re.sub(r"\s+", " ", m.group(1).strip())
            S = self.source(e["file"])
            toks = S.toks
            for i in S.depth_ranges(0, len(toks)):
                if toks[i].kind == "ident" and toks[i].text == "impl":
                    j = i + 1
                    while not (toks[j].kind == "punct" and toks[j].text == "{"):
                        if toks[j].kind == "punct" and toks[j].text in "([":
                            j = S.br[j]
                        j += 1
                    if _norm_header(toks[i:j]) != owner:
                        continue
                    for k in S.depth_ranges(j + 1, S.br[j]):
                        if toks[k].kind == "ident" and toks[k].text == "fn" and toks[k + 1].kind == "ident":
                            name = toks[k + 1].text
                            if name in e.get("exclude", []) or (e["file"], "fn %s::%s" % (owner, name)) in explicit:
                                continue
                            start = _item_start(S, k, j + 1)
                            attrs = S.src[toks[start].start:toks[k].start]
                            if "cfg(" in attrs:
                                continue
                            ne = {kk: vv for kk, vv in e.items() if kk not in ("select", "exclude")}
                            ne["select"] = "fn %s::%s" % (owner, name)
                            out.append(ne)
        return out

    def _std_glob_imports(self):
        """R-use-top: names the source files import from std/core/alloc are imported here too (unless the
        generated text already defines or imports a same-named item), so that an edit which starts using another
        already-imported std name still resolves instead of making the unit undecided."""
        leaves = []  # (path, name)
        for S in self.sources.values():
            toks = S.toks
            for i in S.depth_ranges(0, len(toks)):
                if toks[i].kind == "ident" and toks[i].text == "use" and (i == 0 or toks[i - 1].text in ";}]"):
                    j = i + 1
                    while toks[j].text != ";":
                        j += 1
                    if toks[i + 1].text not in ("std", "core", "alloc"):
                        continue
                    def tree(k, prefix):
                        """parse one use-tree starting at token k; returns next k"""
                        path = list(prefix)
                        while k < j:
                            t = toks[k]
                            if t.kind == "ident" and t.text == "as":
                                leaves.append(("::".join(path), toks[k + 1].text))
                                return k + 2
                            if t.kind == "ident":
                                path.append(t.text)
                                k += 1
                            elif t.text == "::":
                                k += 1
                            elif t.text == ":":
                                k += 1
                            elif t.text == "*":
                                return k + 1
                            elif t.text == "{":
                                k += 1
                                while toks[k].text != "}":
                                    k = tree(k, path)
                                    if toks[k].text == ",":
                                        k += 1
                                return k + 1
                            else:
                                break
                        if len(path) > 1 and path[-1] != "self":
                            leaves.append(("::".join(path), path[-1]))
                        return k
                    tree(i + 1, [])
        text = "".join(c[0] for c in self.chunks)
        out, seen = [], set()
        for pth, name in leaves:
            if name in seen or pth.startswith(("std::fmt", "core::fmt")):
                continue
            seen.add(name)
            if re.search(r"\b(?:struct|enum|type|fn|trait|mod|const|union)\s+%s\b" % re.escape(name), text):
                continue
            if re.search(r"\buse\b[^;]*\b%s\b\s*(?:[,;}]|$)" % re.escape(name), text, re.M):
                continue
            out.append("#[allow(unused_imports)] use %s%s;\n" % (pth, (" as " + name) if not pth.endswith("::" + name) else ""))
        if out:
            self.count("R-use-top", "std imports carried over from the source files: " + " ".join(o.strip() for o in out), len(out))
        return "".join(out)

    def _check_log_calls(self, S, a, b, fn):
        toks = S.toks
        for i in range(a, b):
            if toks[i].kind == "ident" and i + 1 < b and toks[i + 1].text == "(":
                if toks[i].text not in LOG_CALL_ALLOW:
                    raise ExtractError("R-log: `%s(` inside a deleted log statement of %s is not on the "
                                       "pure-getter allow-list" % (toks[i].text, fn))

    def _loops(self, it):
        S, toks = it.src, it.src.toks
        loops = []
        i = it.body_open + 1
        while i < it.hi:
            t = toks[i]
            if t.kind == "ident" and t.text in ("for", "while", "loop") and toks[i - 1].text != ".":
                if t.text == "for" and toks[i + 1].text == "<":
                    i += 1
                    continue
                j = i + 1
                while not (toks[j].kind == "punct" and toks[j].text == "{"):
                    if toks[j].text in "([":
                        j = S.br[j]
                    j += 1
                in_idx = None
                if t.text == "for":
                    k = i + 1
                    while k < j:
                        if toks[k].text in "([":
                            k = S.br[k]
                        if toks[k].kind == "ident" and toks[k].text == "in":
                            in_idx = k
                            break
                        k += 1
                loops.append((i, j, S.br[j], in_idx))
            i += 1
        return loops

    def _find_stmt(self, it, text, nth):
        S, toks = it.src, it.src.toks
        pat = [t.text for t in lex(text)]
        n, seen = len(pat), 0
        for i in range(it.body_open + 1, it.hi - n + 1):
            if [t.text for t in toks[i:i + n]] == pat:
                if seen == nth:
                    return i, i + n - 1
                seen += 1
        raise ExtractError("anchor `%s` (occurrence %d) not found in %s" % (text, nth, it.name))

    def _apply_splice(self, it, sp, insert, edits):
        S, toks = it.src, it.src.toks
        if it.kind != "fn" or it.body_open is None:
            raise ExtractError("splice on non-function %s" % it.name)
        loops = None
        for anchor, opts, lines in sp.sections:
            text = "\n".join(lines).rstrip() + "\n"
            self.clauses += len(re.findall(r"^\s*(?:requires|ensures|invariant|invariant_except_break|decreases)\b", text, re.M))
            # count individual comma-terminated clauses conservatively: lines ending with ','
            kv = {}
            pos_args = []
            for o in opts:
                if re.match(r'\w+=', o):
                    k, _, v = o.partition("=")
                    kv[k] = v.strip('"')
                else:
                    pos_args.append(o.strip('"'))
            if anchor == "sig":
                if "ret" in kv:
                    # wrap return type
                    j = _skip_generics(S, it.kw + 2)
                    close = S.br[j]
                    k = close + 1
                    if toks[k].text == "-" and toks[k + 1].text == ">":
                        a = toks[k + 2].start
                        e = k + 2
                        while e < it.body_open and not (toks[e].kind == "ident" and toks[e].text == "where"):
                            if toks[e].text in "([":
                                e = S.br[e]
                            e += 1
                        b = toks[e - 1].end
                        edits.append((a, a, "(%s: " % kv["ret"]))
                        edits.append((b, b, ")"))
                    else:
                        raise ExtractError("sig ret= on %s which has no return type" % it.name)
                insert(toks[it.body_open].start, "\n" + text)
            elif anchor == "entry":
                insert(toks[it.body_open].end, "\n" + text)
            elif anchor == "exit":
                insert(toks[it.hi].start, "\n" + text)
            elif anchor == "tail":
                # just before the tail expression of the body (after the last depth-0 `;` or block `}`)
                last = None
                for i in S.depth_ranges(it.body_open + 1, it.hi):
                    if toks[i].text == ";":
                        last = i
                    elif toks[i].text == "{":
                        last = S.br[i]
                if last is None:
                    pos = toks[it.body_open].end
                else:
                    if last + 1 >= it.hi:
                        raise ExtractError("@tail: %s has no tail expression" % it.name)
                    pos = toks[last].end
                insert(pos, "\n" + text)
            elif anchor == "loop":
                if loops is None:
                    loops = self._loops(it)
                k = int(pos_args[0])
                where = pos_args[1]
                if k >= len(loops):
                    raise ExtractError("loop %d not found in %s (has %d)" % (k, it.name, len(loops)))
                kw, op, cl, in_idx = loops[k]
                if where == "header":
                    if "iter" in kv:
                        if in_idx is None:
                            raise ExtractError("iter= on a non-for loop in %s" % it.name)
                        insert(toks[in_idx].end, " %s:" % kv["iter"])
                    insert(toks[op].start, "\n" + text)
                elif where == "body-entry":
                    insert(toks[op].end, "\n" + text)
                elif where == "body-exit":
                    insert(toks[cl].start, "\n" + text)
                elif where == "after":
                    insert(toks[cl].end, "\n" + text)
                else:
                    raise ExtractError("unknown loop anchor %s" % where)
            elif anchor in ("before", "after"):
                nth = int(kv.get("nth", 0))
                a, b = self._find_stmt(it, pos_args[0], nth)
                if anchor == "before":
                    insert(toks[a].start, text)
                else:
                    e = b
                    while toks[e].text != ";":
                        if toks[e].text in "([{":
                            e = S.br[e]
                        e += 1
                    insert(toks[e].end, "\n" + text)
            elif anchor == "close":
                # `@close "tokens … {"`: just before the brace that closes the block opened by the last token
                nth = int(kv.get("nth", 0))
                a, b = self._find_stmt(it, pos_args[0], nth)
                if toks[b].text != "{" or b not in S.br:
                    raise ExtractError("@close anchor `%s` does not end with an opening brace" % pos_args[0])
                insert(toks[S.br[b]].start, "\n" + text)
            elif anchor == "open":
                # `@open "tokens … {"`: right after that opening brace
                nth = int(kv.get("nth", 0))
                a, b = self._find_stmt(it, pos_args[0], nth)
                if toks[b].text != "{":
                    raise ExtractError("@open anchor `%s` does not end with an opening brace" % pos_args[0])
                insert(toks[b].end, "\n" + text)
            elif anchor == "closure":
                # `@closure k params="a: A" ret="r: R"` + requires/ensures text: annotate the k-th closure of the fn
                k = int(pos_args[0])
                cl = self._closures(it)
                if k >= len(cl):
                    raise ExtractError("closure %d not found in %s" % (k, it.name))
                p0, p1, b0, b1 = cl[k]
                if "params" in kv:
                    edits.append((toks[p0].end, toks[p1].start, kv["params"]))
                sig = (" -> (%s)" % kv["ret"]) if "ret" in kv else ""
                if toks[b0].text == "{" and S.br[b0] == b1:
                    insert(toks[b0].start, sig + "\n" + text)
                else:
                    insert(toks[b0].start, sig + "\n" + text + "{ ")
                    insert(toks[b1].end, " }")
                self.count("R-closure-sig", "closure %d of %s annotated with types/contract" % (k, it.name))
            else:
                raise ExtractError("unknown anchor @%s in %s" % (anchor, sp.path))

    def _closures(self, it):
        """[(open pipe, close pipe, first body token, last body token)] in source order"""
        S, toks = it.src, it.src.toks
        res = []
        i = it.body_open + 1
        while i < it.hi:
            t = toks[i]
            if t.text == "|" and toks[i - 1].text in ("(", ",", "=", "move", "{", ";", "return"):
                j = i + 1
                while toks[j].text != "|":
                    if toks[j].text in "([":
                        j = S.br[j]
                    j += 1
                b0 = j + 1
                if toks[b0].text == "{":
                    b1 = S.br[b0]
                else:
                    e = b0
                    while not (toks[e].text in (",", ";") or (toks[e].text in ")]}" )):
                        if toks[e].text in "([{":
                            e = S.br[e]
                        e += 1
                    b1 = e - 1
                res.append((i, j, b0, b1))
                i = j
            i += 1
        return res

    # -- whole unit ------------------------------------------------------------------------------
    def build(self):
        head = ["// GENERATED by /verif/tools/vextract.py from the current /repo working tree. Do not edit.\n",
                "#![allow(unused_imports, dead_code, unused_variables, unused_mut, unused_assignments, non_camel_case_types)]\n"]
        ph = os.path.join(self.unit_dir, "prelude_head.rs")
        if os.path.exists(ph):
            head.append(open(ph).read())
        head.append("use vstd::prelude::*;\nverus! {\n")
        self.chunks.append(("".join(head), None, None))
        for pre in self.spec.get("preludes", ["prelude.rs"]):
            p = os.path.join(self.unit_dir, pre)
            if not os.path.exists(p):
                p = os.path.join(os.path.dirname(self.unit_dir), pre)
            self.chunks.append(("// ---- prelude %s (hand-written spec only)\n" % pre, None, None))
            self.chunks.append((open(p).read() + "\n", "PRELUDE:" + os.path.relpath(p, os.path.dirname(self.unit_dir)), 1))
        self.chunks.append(("// ---- extracted items\n", None, None))
        self._auto_imports_at = len(self.chunks)
        tree = {}  # module path tuple -> list of chunk lists

        def emit(entry, chunk_list):
            wm = entry.get("wrap_mod")
            if wm:
                tree.setdefault(tuple(wm.split("::")), []).append(chunk_list)
            else:
                self.chunks.extend(chunk_list)

        for entry in self._expand_wildcards(self.spec.get("item", [])):
            if "raw" in entry:
                emit(entry, [(entry["raw"].rstrip() + "\n", None, None)])
                continue
            S = self.source(entry["file"])
            it = find_item(S, entry["select"], entry.get("mod"))
            rendered = self.render(it, entry)
            raw = S.src[S.toks[it.lo].start:S.toks[it.hi].end]
            rec = dict(item=entry["select"], file=entry["file"],
                       line=line_of(S.src, S.toks[it.lo].start),
                       sha256=hashlib.sha256(raw.encode()).hexdigest()[:16],
                       contract=bool(entry.get("splice")))
            if entry.get("emit_name"):
                rec["emit_name"] = entry["emit_name"]
            self.functions.append(rec)
            cl = [("\n// from %s:%d  [%s]\n" % (entry["file"], rec["line"], entry["select"]), None, None)]
            if it.impl_header:
                hdr = it.impl_header
                if entry.get("impl_header"):
                    hdr = entry["impl_header"]
                cl.append((hdr + " {\n", None, None))
            cl.extend(rendered)
            cl.append(("\n", None, None))
            if it.impl_header:
                cl.append(("}\n", None, None))
            if entry.get("derive_from") and it.kind == "enum":
                cl.append((self._derive_from(it), None, None))
            emit(entry, cl)

        def emit_tree(prefix):
            depth = len(prefix)
            for cl in tree.get(prefix, []):
                self.chunks.extend(cl)
            children = sorted({p[depth] for p in tree if len(p) > depth and p[:depth] == prefix})
            for c in children:
                self.chunks.append(("pub mod %s {\n#[allow(unused_imports)] use super::*;\n" % c, None, None))
                emit_tree(prefix + (c,))
                self.chunks.append(("} // mod %s\n" % c, None, None))
        # R-const: module-level constants of the source files that extracted items mention are extracted too
        listed = {(e.get("file"), e.get("select")) for e in self.spec.get("item", []) if "select" in e}
        text_now = "".join(c[0] for c in self.chunks) + "".join(c[0] for cls in tree.values() for cl in cls for c in cl)
        for rel, S in list(self.sources.items()):
            toks = S.toks
            for i in S.depth_ranges(0, len(toks)):
                if toks[i].kind == "ident" and toks[i].text == "const" and toks[i + 1].kind == "ident" \
                        and toks[i + 2].text == ":" and (i == 0 or toks[i - 1].text in ";}])" or toks[i - 1].text == "pub"):
                    name = toks[i + 1].text
                    if (rel, "const " + name) in listed:
                        continue
                    if not re.search(r"\b%s\b" % re.escape(name), text_now):
                        continue
                    if re.search(r"\bconst\s+%s\b" % re.escape(name), text_now):
                        continue
                    entry = dict(file=rel, select="const " + name)
                    it = find_item(S, entry["select"])
                    rendered = self.render(it, entry)
                    self.chunks.append(("\n// from %s:%d  [const %s]  (R-const: referenced by an extracted item)\n" % (
                        rel, line_of(S.src, toks[it.lo].start), name), None, None))
                    self.chunks.extend(rendered)
                    self.chunks.append(("\n", None, None))
                    self.count("R-const", "%s const %s" % (rel, name))
        imports = self._std_glob_imports()
        if imports:
            self.chunks.insert(self._auto_imports_at, (imports, None, None))
        if tree:
            self.chunks.append(("\n// ---- items of other crates / modules, under their real paths (R-pub)\n", None, None))
            emit_tree(())
        self.chunks.append(("\n} // verus!\nfn main() {}\n", None, None))
        return self

    def text(self):
        return "".join(c[0] for c in self.chunks)

    def linemap(self):
        """dict gen line (1-based) -> (file, line) for lines that carry text copied from a file"""
        m = {}
        cur = 1
        for text, f, l in self.chunks:
            parts = text.split("\n")
            for k, part in enumerate(parts):
                if f is not None and part.strip() and (cur + k) not in m:
                    m[cur + k] = (f, l + k)
            cur += len(parts) - 1
        return m


def main():
    import argparse
    ap = argparse.ArgumentParser()
    ap.add_argument("unit_dir")
    ap.add_argument("--repo", default="/repo")
    ap.add_argument("-o", "--out", required=True)
    a = ap.parse_args()
    try:
        ex = Extraction(a.repo, a.unit_dir).build()
    except ExtractError as e:
        print("UNDECIDED extraction: %s" % e)
        sys.exit(2)
    open(a.out, "w").write(ex.text())
    print("wrote %s: %d items, rewrites %s" % (a.out, len(ex.functions), ex.rewrites))


if __name__ == "__main__":
    main()
