"""Minimal Rust tokenizer + bracket matcher used by the extractor.

It understands line/block (nested) comments, string / raw string / byte string literals,
char literals vs lifetimes, identifiers, numbers and single-character punctuation.  It is not a
parser: the extractor only needs reliable item boundaries, bracket matching and statement
anchors, all of which are token-level facts.
"""
import re
from collections import namedtuple

Tok = namedtuple("Tok", "kind text start end")  # kind: ident | num | str | char | life | punct | comment

_ident_re = re.compile(r"[A-Za-z_][A-Za-z0-9_]*")
_num_re = re.compile(r"[0-9][0-9A-Za-z_]*(\.[0-9][0-9A-Za-z_]*)?")


class LexError(Exception):
    pass


def lex(src, keep_comments=False):
    toks = []
    i, n = 0, len(src)
    while i < n:
        c = src[i]
        if c.isspace():
            i += 1
            continue
        if src.startswith("//", i):
            j = src.find("\n", i)
            j = n if j < 0 else j
            if keep_comments:
                toks.append(Tok("comment", src[i:j], i, j))
            i = j
            continue
        if src.startswith("/*", i):
            depth, j = 1, i + 2
            while j < n and depth:
                if src.startswith("/*", j):
                    depth += 1
                    j += 2
                elif src.startswith("*/", j):
                    depth -= 1
                    j += 2
                else:
                    j += 1
            if depth:
                raise LexError("unterminated block comment")
            if keep_comments:
                toks.append(Tok("comment", src[i:j], i, j))
            i = j
            continue
        # raw / byte strings
        m = re.match(r"(b?r)(#*)\"", src[i:i + 40])
        if m:
            hashes = m.group(2)
            close = '"' + hashes
            j = src.find(close, i + m.end())
            if j < 0:
                raise LexError("unterminated raw string")
            j += len(close)
            toks.append(Tok("str", src[i:j], i, j))
            i = j
            continue
        if c == '"' or (c == "b" and i + 1 < n and src[i + 1] == '"'):
            j = i + (2 if c == "b" else 1)
            while j < n and src[j] != '"':
                j += 2 if src[j] == "\\" else 1
            if j >= n:
                raise LexError("unterminated string")
            j += 1
            toks.append(Tok("str", src[i:j], i, j))
            i = j
            continue
        if c == "'" or (c == "b" and i + 1 < n and src[i + 1] == "'"):
            k = i + (1 if c == "b" else 0)
            # char literal or lifetime
            if k + 1 < n and src[k + 1] == "\\":
                j = k + 2
                while j < n and src[j] != "'":
                    j += 1
                j += 1
                toks.append(Tok("char", src[i:j], i, j))
                i = j
                continue
            if k + 2 < n and src[k + 2] == "'":
                j = k + 3
                toks.append(Tok("char", src[i:j], i, j))
                i = j
                continue
            if c == "'":
                m = _ident_re.match(src, i + 1)
                if m:
                    toks.append(Tok("life", src[i:m.end()], i, m.end()))
                    i = m.end()
                    continue
            # fall through: treat as punct
        m = _ident_re.match(src, i)
        if m:
            toks.append(Tok("ident", m.group(0), i, m.end()))
            i = m.end()
            continue
        m = _num_re.match(src, i)
        if m:
            toks.append(Tok("num", m.group(0), i, m.end()))
            i = m.end()
            continue
        toks.append(Tok("punct", c, i, i + 1))
        i += 1
    return toks


OPEN = {"(": ")", "[": "]", "{": "}"}
CLOSE = {")": "(", "]": "[", "}": "{"}


def match_brackets(toks):
    """Return dict idx -> matching idx for every bracket token."""
    stack, m = [], {}
    for i, t in enumerate(toks):
        if t.kind != "punct":
            continue
        if t.text in OPEN:
            stack.append(i)
        elif t.text in CLOSE:
            if not stack or toks[stack[-1]].text != CLOSE[t.text]:
                raise LexError("unbalanced bracket at byte %d" % t.start)
            j = stack.pop()
            m[i] = j
            m[j] = i
    if stack:
        raise LexError("unclosed bracket at byte %d" % toks[stack[-1]].start)
    return m


def line_of(src, pos):
    return src.count("\n", 0, pos) + 1
