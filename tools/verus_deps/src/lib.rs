// builds chrono with Verus' pinned toolchain so that units can link real dependency types (--extern)
