#!/bin/bash
# confirm_seed.sh <seed dir with patch.diff + demo.rs> <crate> [append:<file>]
# In a scratch worktree of /repo HEAD: (1) patch applies, (2) workspace tests pass with it (37), (3) demo fails with
# it, (4) demo passes without it.  The worktree and its build output are removed afterwards.
set -u
SEED=$(realpath "$1"); CRATE=$2; MODE=${3:-integration}
W=/tmp/confirm/$$; mkdir -p /tmp/confirm
git -C /repo worktree add -q --detach "$W" HEAD || exit 3
cp /repo/Cargo.lock "$W"/
export CARGO_TARGET_DIR=/tmp/confirm/target CARGO_NET_OFFLINE=true
cd "$W"
res() { echo "CONFIRM $(basename $(dirname $SEED/x))/$(basename $SEED): $*"; }
git apply "$SEED/patch.diff" || { res "patch does not apply"; git -C /repo worktree remove --force "$W"; exit 3; }
T=$(cargo test --workspace --no-fail-fast --offline 2>&1 | grep -E "^test result: .* [1-9][0-9]* passed" | head -1)
place() {
  if [ "$MODE" = integration ]; then mkdir -p $CRATE/tests && cp "$SEED/demo.rs" $CRATE/tests/seed_demo.rs
  else f=${MODE#append:}; cp $f /tmp/confirm/orig.$$; cat "$SEED/demo.rs" >> $f; fi
}
unplace() {
  if [ "$MODE" = integration ]; then rm -rf $CRATE/tests/seed_demo.rs; else f=${MODE#append:}; cp /tmp/confirm/orig.$$ $f; fi
}
run_demo() {
  if [ "$MODE" = integration ]; then cargo test -p $CRATE --test seed_demo --offline 2>&1 | grep -E "^test result" | tail -1
  else cargo test -p $CRATE --offline --lib c15_variant 2>&1 | grep -E "^test result" | head -1; fi
}
place; WITH=$(run_demo); unplace
git apply -R "$SEED/patch.diff"
place; WITHOUT=$(run_demo); unplace
res "suite-with-change=[$T] demo-with=[$WITH] demo-without=[$WITHOUT]"
cd /; git -C /repo worktree remove --force "$W"; rm -f /tmp/confirm/orig.$$
