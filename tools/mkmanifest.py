"""Regenerate /verif/MANIFEST.json from tools/registry.py (single source of truth for what is claimed)."""
import json
import os
import sys

sys.path.insert(0, os.path.dirname(os.path.abspath(__file__)))
import registry  # noqa: E402

ROOT = os.path.dirname(os.path.dirname(os.path.abspath(__file__)))
ALL = [json.loads(l)["id"] for l in open(os.path.join(ROOT, "properties.jsonl"))]

M = {
    "version": 1,
    "setup_cmd": "./setup.sh",
    "hooks": {
        "guard": "nexrad_verif",
        "enable": "no source hook is used: Kani harness modules / contract attributes are injected into a scratch copy "
                  "of /repo under cfg(kani); Verus runs on text extracted mechanically from /repo on every run",
        "baseline_off_cmd": "cd /repo && cargo test --workspace --no-fail-fast --offline",
        "source_commits": [],
        "add_only": True,
    },
    "engines": [
        {"name": "verus-extract", "path": "tools/vextract.py tools/verus_run.py units/",
         "serves_properties": sorted(p for p, s in registry.CHECKS.items() if s.get("verus")),
         "kind_free_text": "contract-based deductive verification: Verus/Z3 on functions extracted mechanically from "
                           "/repo on every run with requires/ensures/invariants/decreases spliced at syntactic anchors"},
        {"name": "kani-contracts", "path": "tools/kani_run.py kani/",
         "serves_properties": sorted(p for p, s in registry.CHECKS.items() if s.get("kani")),
         "kind_free_text": "Kani/CBMC on the real crates: loop-free full-domain harnesses (complete) and function "
                           "contracts; bounded harnesses are labelled bounded and not counted as proof"},
    ],
    "checks": [],
    "not_applicable": [],
    "notes": "exit 0 = every obligation discharged (KNOWN-FINDING lines allowed); exit 1 = VIOLATION line(s); "
             "exit 2 = UNDECIDED (lost anchor, unsupported construct, solver limit) and never an alarm. DESIGN.md has the details.",
}
for pid in ALL:
    s = registry.CHECKS.get(pid)
    if not s:
        M["not_applicable"].append({"property_id": pid, "reason": registry.NOT_APPLICABLE.get(
            pid, "not yet claimed: no contract unit built for it in this revision")})
        continue
    M["checks"].append({
        "property_id": pid,
        "quick_cmd": "./check %s --tier quick" % pid,
        "thorough_cmd": "./check %s --tier thorough" % pid,
        "evidence_file": "evidence/%s.json" % pid,
        "replay_cmd_template": "./check %s --replay {path}" % pid,
        "engine": "+".join((["verus-extract"] if s.get("verus") else []) + (["kani-contracts"] if s.get("kani") else [])),
        "level_claimed": {"category": "proof", "text": s.get("level_text", s.get("explanation", "")),
                          "design_ref": "DESIGN.md section 9 (as built) and section 5, " + pid},
        "level_note": s.get("level_note", "; ".join(s.get("trusted_base", []))),
        "technique": s.get("technique", "contract-based deductive verification (" + " + ".join(
            (["Verus on extracted real functions"] if s.get("verus") else []) +
            (["Kani function contracts / full-domain harnesses on the real crate"] if s.get("kani") else [])) + ")"),
    })
json.dump(M, open(os.path.join(ROOT, "MANIFEST.json"), "w"), indent=1)
print("MANIFEST: %d checks, %d not_applicable" % (len(M["checks"]), len(M["not_applicable"])))
