"""The wire table: ICD 2620002 byte layouts of every fixed-size struct /repo reads through serde/bincode.

This table is the independent oracle for the layout clauses of C02/C05/C10/C11/C12/C13: it is written from the
ICD tables (field order, width, signedness, byte offset inside the struct), NOT derived from the struct
declarations of /repo.  Two things are generated from it so that the Verus and the Kani side cannot drift:

* kani:  one full-domain harness per struct (`[u8; WIRE] = any()` through the real decode path, every field
         compared with the big-endian value at its offset, reader empty afterwards, and every strict prefix
         fails without panicking);
* verus: the `impl Wire for S { wire_len, parse }` spec text used by the units that assume `deserialize`.
"""
import os
import sys

# (field path, kind, offset) ; kinds: u8 u16 i16 u32 f32 bytes:N u16x:N
T = {}

T["MessageHeader"] = dict(
    crate="nexrad-decode", path="crate::messages::message_header::MessageHeader", wire=28, icd="Table II (+12 RPG bytes)",
    fields=[("rpg_unknown", "bytes:12", 0), ("segment_size", "u16", 12), ("redundant_channel", "u8", 14),
            ("message_type", "u8", 15), ("sequence_number", "u16", 16), ("date", "u16", 18), ("time", "u32", 20),
            ("segment_count", "u16", 24), ("segment_number", "u16", 26)], private=["rpg_unknown"])

T["DrdHeader"] = dict(
    crate="nexrad-decode", path="crate::messages::digital_radar_data::Header", wire=32, icd="Table XVII-A",
    fields=[("radar_identifier", "bytes:4", 0), ("time", "u32", 4), ("date", "u16", 8), ("azimuth_number", "u16", 10),
            ("azimuth_angle", "f32", 12), ("compression_indicator", "u8", 16), ("spare", "u8", 17),
            ("radial_length", "u16", 18), ("azimuth_resolution_spacing", "u8", 20), ("radial_status", "u8", 21),
            ("elevation_number", "u8", 22), ("cut_sector_number", "u8", 23), ("elevation_angle", "f32", 24),
            ("radial_spot_blanking_status", "u8", 28), ("azimuth_indexing_mode", "u8", 29), ("data_block_count", "u16", 30)])

T["DataBlockId"] = dict(
    crate="nexrad-decode", path="crate::messages::digital_radar_data::DataBlockId", wire=4, icd="Table XVII-B/E (type+name)",
    fields=[("data_block_type", "u8", 0), ("data_name", "bytes:3", 1)])

_ID = [("data_block_id.data_block_type", "u8", 0), ("data_block_id.data_name", "bytes:3", 1)]

T["VolumeDataBlock"] = dict(
    crate="nexrad-decode", path="crate::messages::digital_radar_data::VolumeDataBlock", wire=52, icd="Table XVII-E (Build 19+)",
    fields=_ID + [("lrtup", "u16", 4), ("major_version_number", "u8", 6), ("minor_version_number", "u8", 7),
                  ("latitude", "f32", 8), ("longitude", "f32", 12), ("site_height", "i16", 16), ("feedhorn_height", "u16", 18),
                  ("calibration_constant", "f32", 20), ("horizontal_shv_tx_power", "f32", 24), ("vertical_shv_tx_power", "f32", 28),
                  ("system_differential_reflectivity", "f32", 32), ("initial_system_differential_phase", "f32", 36),
                  ("volume_coverage_pattern_number", "u16", 40), ("processing_status", "u16", 42),
                  ("zdr_bias_estimate_weighted_mean", "u16", 44), ("spare", "bytes:6", 46)])

T["ElevationDataBlock"] = dict(
    crate="nexrad-decode", path="crate::messages::digital_radar_data::ElevationDataBlock", wire=12, icd="Table XVII-F",
    fields=_ID + [("lrtup", "u16", 4), ("atmos", "i16", 6), ("calibration_constant", "f32", 8)])

T["RadialDataBlock"] = dict(
    crate="nexrad-decode", path="crate::messages::digital_radar_data::RadialDataBlock", wire=28, icd="Table XVII-H",
    fields=_ID + [("lrtup", "u16", 4), ("unambiguous_range", "u16", 6), ("horizontal_channel_noise_level", "f32", 8),
                  ("vertical_channel_noise_level", "f32", 12), ("nyquist_velocity", "u16", 16), ("radial_flags", "u16", 18),
                  ("horizontal_channel_calibration_constant", "f32", 20), ("vertical_channel_calibration_constant", "f32", 24)])

T["GenericDataBlockHeader"] = dict(
    crate="nexrad-decode", path="crate::messages::digital_radar_data::GenericDataBlockHeader", wire=28, icd="Table XVII-B",
    fields=_ID + [("reserved", "u32", 4), ("number_of_data_moment_gates", "u16", 8), ("data_moment_range", "u16", 10),
                  ("data_moment_range_sample_interval", "u16", 12), ("tover", "u16", 14), ("snr_threshold", "u16", 16),
                  ("control_flags", "u8", 18), ("data_word_size", "u8", 19), ("scale", "f32", 20), ("offset", "f32", 24)])

T["VcpHeader"] = dict(
    crate="nexrad-decode", path="crate::messages::volume_coverage_pattern::Header", wire=22, icd="Table XI (halfwords 1-11)",
    fields=[("message_size", "u16", 0), ("pattern_type", "u16", 2), ("pattern_number", "u16", 4),
            ("number_of_elevation_cuts", "u16", 6), ("version", "u8", 8), ("clutter_map_group_number", "u8", 9),
            ("doppler_velocity_resolution", "u8", 10), ("pulse_width", "u8", 11), ("reserved_1", "u32", 12),
            ("vcp_sequencing", "u16", 16), ("vcp_supplemental_data", "u16", 18), ("reserved_2", "u16", 20)])

T["VcpElevation"] = dict(
    crate="nexrad-decode", path="crate::messages::volume_coverage_pattern::ElevationDataBlock", wire=46, icd="Table XI (E1-E23)",
    fields=[("elevation_angle", "u16", 0), ("channel_configuration", "u8", 2), ("waveform_type", "u8", 3),
            ("super_resolution_control", "u8", 4), ("surveillance_prf_number", "u8", 5),
            ("surveillance_prf_pulse_count_radial", "u16", 6), ("azimuth_rate", "u16", 8),
            ("reflectivity_threshold", "i16", 10), ("velocity_threshold", "i16", 12), ("spectrum_width_threshold", "i16", 14),
            ("differential_reflectivity_threshold", "i16", 16), ("differential_phase_threshold", "i16", 18),
            ("correlation_coefficient_threshold", "i16", 20), ("sector_1_edge_angle", "u16", 22),
            ("sector_1_doppler_prf_number", "u16", 24), ("sector_1_doppler_prf_pulse_count_radial", "u16", 26),
            ("supplemental_data", "u16", 28), ("sector_2_edge_angle", "u16", 30), ("sector_2_doppler_prf_number", "u16", 32),
            ("sector_2_doppler_prf_pulse_count_radial", "u16", 34), ("ebc_angle", "u16", 36), ("sector_3_edge_angle", "u16", 38),
            ("sector_3_doppler_prf_number", "u16", 40), ("sector_3_doppler_prf_pulse_count_radial", "u16", 42),
            ("reserved", "u16", 44)])

T["CfmHeader"] = dict(
    crate="nexrad-decode", path="crate::messages::clutter_filter_map::Header", wire=6, icd="Table XIV (halfwords 1-3)",
    fields=[("map_generation_date", "u16", 0), ("map_generation_time", "u16", 2), ("elevation_segment_count", "u16", 4)])
T["AzimuthSegmentHeader"] = dict(
    crate="nexrad-decode", path="crate::messages::clutter_filter_map::AzimuthSegmentHeader", wire=2, icd="Table XIV",
    fields=[("range_zone_count", "u16", 0)])
T["RangeZone"] = dict(
    crate="nexrad-decode", path="crate::messages::clutter_filter_map::RangeZone", wire=4, icd="Table XIV",
    fields=[("op_code", "u16", 0), ("end_range", "u16", 2)])

_rda = ["rda_status", "operability_status", "control_status", "auxiliary_power_generator_state",
        "average_transmitter_power", "horizontal_reflectivity_calibration_correction", "data_transmission_enabled",
        "volume_coverage_pattern", "rda_control_authorization", "rda_build_number", "operational_mode",
        "super_resolution_status", "clutter_mitigation_decision_status", "rda_scan_and_data_flags", "rda_alarm_summary",
        "command_acknowledgement", "channel_control_status", "spot_blanking_status", "bypass_map_generation_date",
        "bypass_map_generation_time", "clutter_filter_map_generation_date", "clutter_filter_map_generation_time",
        "vertical_reflectivity_calibration_correction", "transition_power_source_status", "rms_control_status",
        "performance_check_status"]
T["RdaStatus"] = dict(
    crate="nexrad-decode", path="crate::messages::rda_status_data::Message", wire=120, icd="Table IV (60 halfwords)",
    fields=[(n, "i16" if n == "volume_coverage_pattern" else "u16", 2 * i) for i, n in enumerate(_rda)] +
           [("alarm_codes", "u16x:14", 52), ("signal_processor_options", "u16", 80), ("spares", "u16x:18", 82),
            ("status_version", "u16", 118)])

T["VolumeHeader"] = dict(
    crate="nexrad-data", path="crate::volume::Header", wire=24, icd="Archive II volume header record",
    fields=[("tape_filename", "bytes:9", 0), ("extension_number", "bytes:3", 9), ("date", "u32", 12), ("time", "u32", 16),
            ("icao_of_radar", "bytes:4", 20)], private=["tape_filename", "extension_number", "date", "time", "icao_of_radar"],
    decode="crate::volume::Header::deserialize(&mut r)")


def _expect(kind, off):
    b = lambda k: "bytes[%d]" % (off + k)
    if kind == "u8":
        return b(0)
    if kind == "u16":
        return "u16::from_be_bytes([%s, %s])" % (b(0), b(1))
    if kind == "i16":
        return "i16::from_be_bytes([%s, %s])" % (b(0), b(1))
    if kind == "u32":
        return "u32::from_be_bytes([%s, %s, %s, %s])" % (b(0), b(1), b(2), b(3))
    raise ValueError(kind)


PREFIX_BUDGET = 160  # sum of prefix lengths per harness


def prefix_chunks(name):
    """[(lo, hi)] half-open ranges of prefix lengths covering 0..wire, each with sum(lengths) <= budget"""
    w = T[name]["wire"]
    out, lo, acc = [], 0, 0
    for n in range(w):
        if acc + n > PREFIX_BUDGET and n > lo:
            out.append((lo, n))
            lo, acc = n, 0
        acc += n
    out.append((lo, w))
    return out


def prefix_harnesses(name, prefix="wire"):
    return ["%s_prefix_%s_%d" % (prefix, name, k) for k in range(len(prefix_chunks(name)))]


def kani_harness(name, prefix):
    s = T[name]
    w = s["wire"]
    decode = s.get("decode", "crate::util::deserialize::<_, %s>(&mut r)" % s["path"])
    out = []
    out.append("/// %s: %d bytes, ICD %s — every field at its offset, all byte values (complete: loop-free)" % (name, w, s["icd"]))
    out.append("#[kani::proof]\nfn %s_layout_%s() {" % (prefix, name))
    out.append("    let bytes: [u8; %d] = kani::any();" % w)
    out.append("    let mut r: &[u8] = &bytes;")
    out.append("    let v: %s = %s.unwrap();" % (s["path"], decode))
    out.append("    assert!(r.is_empty());")
    for path, kind, off in s["fields"]:
        if path in s.get("private", []):
            out.append("    // %s (%s @%d) is private to its module: pinned by the offsets of its neighbours" % (path, kind, off))
            continue
        if kind.startswith("bytes:"):
            n = int(kind[6:])
            for k in range(n):
                out.append("    assert!(v.%s[%d] == bytes[%d]);" % (path, k, off + k))
        elif kind.startswith("u16x:"):
            n = int(kind[5:])
            for k in range(n):
                out.append("    assert!(v.%s[%d] == %s);" % (path, k, _expect("u16", off + 2 * k)))
        elif kind == "f32":
            out.append("    assert!(v.%s.to_bits() == %s);" % (path, _expect("u32", off)))
        else:
            out.append("    assert!(v.%s == %s);" % (path, _expect(kind, off)))
    out.append("}\n")
    # totality on every strict prefix: Err, never a panic.  The prefix length is concrete per loop iteration
    # (a constant-trip-count loop, fully unwound with unwinding assertions on), because a *symbolic* slice
    # length sends CBMC into a 10-minute timeout while a concrete one takes seconds; all W lengths are covered,
    # split over several harnesses so that each stays within the solver budget.
    for k, (lo, hi) in enumerate(prefix_chunks(name)):
        out.append("/// %s: every strict prefix of length %d..%d (all byte values) is an error, never a panic" % (name, lo, hi - 1))
        out.append("#[kani::proof]\n#[kani::unwind(%d)]\nfn %s_prefix_%s_%d() {" % (hi - lo + 2, prefix, name, k))
        out.append("    let bytes: [u8; %d] = kani::any();" % w)
        out.append("    let mut n: usize = %d;" % lo)
        out.append("    while n < %d {" % hi)
        out.append("        let mut r: &[u8] = &bytes[..n];")
        out.append("        let v: Result<%s, _> = %s;" % (s["path"], decode))
        out.append("        assert!(v.is_err());")
        out.append("        core::mem::forget(v); // the error value's drop glue (Box<dyn Error> recursion) is not under test")
        out.append("        n += 1;")
        out.append("    }")
        out.append("}\n")
    return "\n".join(out)


def verus_parse(name, ty, closed=True):
    s = T[name]
    vis = "closed" if closed else "open"
    out = ["// generated from tools/wire.py (%s, ICD %s)" % (name, s["icd"]),
           "impl Wire for %s {" % ty,
           "    %s spec fn wire_len() -> nat { %d }" % (vis, s["wire"]),
           "    %s spec fn parse(b: Seq<u8>) -> Self {" % vis,
           "        %s {" % ty]
    if any(path.startswith("data_block_id.") for path, _, _ in s["fields"]):
        out.append("            data_block_id: DataBlockId { data_block_type: b[0], data_name: bytes_at::<3>(b, 1) },")
    for path, kind, off in s["fields"]:
        if "." in path:
            continue
        if kind == "u8":
            e = "b[%d]" % off
        elif kind == "u16":
            e = "be16(b, %d)" % off
        elif kind == "i16":
            e = "be16(b, %d) as i16" % off
        elif kind == "u32":
            e = "be32u(b, %d)" % off
        elif kind == "f32":
            e = "f32_from_bits(be32u(b, %d))" % off
        elif kind.startswith("bytes:"):
            e = "bytes_at::<%s>(b, %d)" % (kind[6:], off)
        elif kind.startswith("u16x:"):
            e = "u16s_at::<%s>(b, %d)" % (kind[5:], off)
        out.append("            %s: %s," % (path, e))
    out += ["        }", "    }", "}"]
    return "\n".join(out)


def write_kani(crate, names, prefix, path):
    hdr = ("//! GENERATED by tools/wire.py from the wire table (ICD byte layouts).  Do not edit.\n"
           "//! One complete layout harness and one prefix-totality harness per fixed-size struct.\n\n")
    body = "\n".join(kani_harness(n, prefix) for n in names if T[n]["crate"] == crate)
    os.makedirs(os.path.dirname(path), exist_ok=True)
    open(path, "w").write(hdr + body)


if __name__ == "__main__":
    root = os.path.dirname(os.path.dirname(os.path.abspath(__file__)))
    write_kani("nexrad-decode", list(T), "wire", os.path.join(root, "kani", "nexrad-decode", "wire_layout.rs"))
    print("generated layout harnesses for %d structs" % len(T))
