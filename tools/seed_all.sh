#!/bin/bash
# run every seeded change against the check(s) of its property (scratch copies; /repo untouched); results -> gen/logs/seed_results.txt
cd "$(dirname "$0")/.."
OUT=gen/logs/seed_results.txt; : > $OUT
for d in seeded/*/; do  # results -> seeded/RESULTS.txt after review
  n=$(basename $d); p=${n%%-*}
  props=$p
  [ "$n" = "C09-A-zero-sentinel" ] && props="C09 C01"
  res=$(python3 tools/seedtest.py $d/patch.diff $props 2>&1 | grep -E "^== |^VIOLATION|^UNDECIDED" | cut -c1-200 | tr '\n' '|')
  echo "$n :: $res" >> $OUT
done
echo DONE >> $OUT
