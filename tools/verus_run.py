"""Run Verus on one extracted contract unit and turn its diagnostics into named obligations."""
import json
import os
import re
import subprocess
import sys
import time

sys.path.insert(0, os.path.dirname(os.path.abspath(__file__)))
from vextract import Extraction, ExtractError  # noqa: E402

VERIF_ROOT = os.path.dirname(os.path.dirname(os.path.abspath(__file__)))
GEN_DIR = os.path.join(VERIF_ROOT, "gen")

# messages that mean "the solver refuted / could not prove this obligation"
FAIL_PATTERNS = [
    ("postcondition", re.compile(r"postcondition not satisfied")),
    ("closure-postcondition", re.compile(r"unable to prove post-?condition of closure")),
    ("closure-precondition", re.compile(r"unable to prove pre-?condition of closure|closure.*requires.*not satisfied")),
    ("precondition", re.compile(r"precondition not satisfied")),
    ("invariant-entry", re.compile(r"invariant not satisfied before loop")),
    ("invariant-preserved", re.compile(r"invariant not satisfied at end of loop body")),
    ("invariant-break", re.compile(r"invariant not satisfied at (?:a )?break|loop ensures not satisfied")),
    ("invariant", re.compile(r"invariant not satisfied")),
    ("assertion", re.compile(r"assertion failed|assert(?:ion)? .*failed")),
    ("overflow", re.compile(r"possible arithmetic underflow/overflow|possible bit shift underflow/overflow")),
    ("div-by-zero", re.compile(r"possible division by zero")),
    ("decreases", re.compile(r"decreases not satisfied|could not prove termination")),
    ("unreachable", re.compile(r"unreachable|possible panic|call to .*panic")),
    ("recommends", re.compile(r"recommendation not met")),
    ("forall-ensures", re.compile(r"assert_forall_by|failed to prove")),
]
UNDECIDED_PATTERNS = re.compile(r"Resource limit|rlimit|timeout|out of memory", re.I)

ASSUME_SCAN = re.compile(
    r"external_body|assume_specification|external_fn_specification|external_type_specification|"
    r"external_trait_specification|external_trait_extension|\bassume\s*\(|\badmit\s*\(|verifier::external\b|"
    r"verifier::axiom|\buninterp\b|accept_recursive_types|verifier::trusted")


class Obligation:
    def __init__(self, unit, item, kind, clause, repo_span, gen_span, rendered):
        self.unit, self.item, self.kind, self.clause = unit, item, kind, clause
        self.repo_span, self.gen_span, self.rendered = repo_span, gen_span, rendered

    @property
    def name(self):
        c = re.sub(r"\s+", " ", self.clause).strip()
        if len(c) > 120:
            c = c[:117] + "..."
        return "%s::%s::%s[%s]" % (self.unit, self.item, self.kind, c)

    def as_dict(self):
        return dict(name=self.name, unit=self.unit, item=self.item, kind=self.kind, clause=self.clause,
                    repo_span=self.repo_span, gen_span=self.gen_span, verifier_output=self.rendered)


class UnitResult:
    def __init__(self, unit):
        self.unit = unit
        self.status = "undecided"  # ok | violated | undecided
        self.reason = ""
        self.failed = []  # [Obligation]
        self.verified = 0
        self.errors = 0
        self.functions = []  # function-breakdown
        self.smt_ms = 0
        self.wall_s = 0.0
        self.cmd = ""
        self.extraction = None
        self.assumptions = []
        self.vacuity = None
        self.gen_path = None


def _item_ranges(ex):
    """gen line ranges of extracted items: [(lo, hi, select)]"""
    ranges, cur, current = [], 1, None
    for text, f, l in ex.chunks:
        m = re.match(r"\n// from (\S+):(\d+)  \[(.*)\]\n", text)
        if m:
            if current:
                ranges.append((current[0], cur, current[1]))
            current = (cur, m.group(3))
        cur += text.count("\n")
    if current:
        ranges.append((current[0], cur, current[1]))
    return ranges


def _scan_assumptions(text):
    out, seen = [], set()
    for line in text.splitlines():
        s = line.strip()
        if s.startswith("//"):
            continue
        if ASSUME_SCAN.search(line) or re.search(r"\baxiom\s+fn\b", line):
            s = re.sub(r"\s+", " ", s)
            s = s[:200]
            if s not in seen:
                seen.add(s)
                out.append(s)
    return out


def run_verus(path, extra_args=(), timeout=900):
    cmd = ["verus", path, "--output-json", "--time", "--error-format=json", "--multiple-errors", "20"] + list(extra_args)
    t0 = time.time()
    try:
        p = subprocess.run(cmd, capture_output=True, text=True, timeout=timeout, cwd=os.path.dirname(path))
    except subprocess.TimeoutExpired:
        return cmd, None, [], "timeout after %ds" % timeout, time.time() - t0
    wall = time.time() - t0
    try:
        js = json.loads(p.stdout[p.stdout.index("{"):]) if "{" in p.stdout else None
    except Exception:
        js = None
    diags = []
    for line in p.stderr.splitlines():
        line = line.strip()
        if line.startswith("{"):
            try:
                diags.append(json.loads(line))
            except Exception:
                pass
    return cmd, js, diags, p.stderr if js is None else "", wall


def run_unit(unit_dir, repo="/repo", vacuity=True, timeout=900):
    name = os.path.basename(unit_dir.rstrip("/"))
    res = UnitResult(name)
    t0 = time.time()
    try:
        ex = Extraction(repo, unit_dir).build()
    except ExtractError as e:
        res.reason = "extraction: %s" % e
        res.wall_s = time.time() - t0
        return res
    res.extraction = ex
    os.makedirs(GEN_DIR, exist_ok=True)
    gen = os.path.join(GEN_DIR, name + ".rs")
    text = ex.text()
    open(gen, "w").write(text)
    res.gen_path = gen
    res.assumptions = _scan_assumptions(text)
    extra = list(ex.spec.get("verus_args", []))
    for dep in ex.spec.get("extern", []):
        extra += _extern_args(dep)
    cmd, js, diags, raw, wall = run_verus(gen, extra, timeout)
    res.cmd = " ".join(cmd)
    res.wall_s = time.time() - t0
    lm = ex.linemap()
    ranges = _item_ranges(ex)
    gen_lines = text.splitlines()

    def item_of(line):
        for lo, hi, sel in ranges:
            if lo <= line < hi:
                return sel
        return "prelude"

    hard_errors = []
    for d in diags:
        if d.get("level") != "error":
            continue
        msg = d.get("message", "")
        if msg.startswith("aborting due to"):
            continue
        kind = None
        for k, pat in FAIL_PATTERNS:
            if pat.search(msg):
                kind = k
                break
        spans = d.get("spans", [])
        prim = [s for s in spans if s.get("is_primary")] or spans
        if UNDECIDED_PATTERNS.search(msg):
            hard_errors.append("solver limit: " + msg)
            continue
        if kind is None:
            hard_errors.append(msg + (" @gen:%d" % prim[0]["line_start"] if prim else ""))
            continue
        # the clause text is the primary span; the item is where the *body* span lies (or the primary)
        clause = ""
        gl = None
        if prim:
            s = prim[0]
            gl = s["line_start"]
            clause = " ".join(t["text"][t["highlight_start"] - 1:t["highlight_end"] - 1] for t in s.get("text", []))
        body = [s for s in spans if not s.get("is_primary")]
        where_line = body[0]["line_start"] if body else gl
        # prefer a location inside an extracted item
        item = item_of(where_line) if where_line else "?"
        if item == "prelude" and gl:
            item = item_of(gl)
        repo_span = None
        for s in ([*body, *prim]):
            for ln in range(s["line_start"], s["line_end"] + 1):
                if ln in lm and not lm[ln][0].startswith("PRELUDE:"):
                    repo_span = "%s:%d" % lm[ln]
                    break
            if repo_span:
                break
        res.failed.append(Obligation(name, item, kind, clause or msg, repo_span,
                                     "%s:%s" % (os.path.basename(gen), gl), d.get("rendered", msg)))
    if js is None:
        res.reason = "verus produced no result: %s" % (raw[-2000:] if raw else "; ".join(hard_errors)[:2000])
        return res
    vr = js.get("verification-results", {})
    res.verified = vr.get("verified", 0)
    res.errors = vr.get("errors", 0)
    try:
        smt = js["times-ms"]["smt"]
        res.smt_ms = smt.get("smt-run", 0) + smt.get("smt-init", 0)
        for m in smt.get("smt-run-module-times", []):
            for f in m.get("function-breakdown", []):
                res.functions.append(dict(function=f["function"], mode=f.get("mode:", ""), ms=f.get("time", 0),
                                          rlimit=f.get("rlimit", 0), success=f.get("success")))
    except Exception:
        pass
    # a named obligation that the solver refuted stays a violation when, in the same run, another query also ran out
    # of resources (Verus keeps searching for further errors after the first); any other hard error is undecided
    only_limits = all(h.startswith("solver limit:") for h in hard_errors)
    if hard_errors and not (res.failed and only_limits):
        res.status = "undecided"
        res.reason = "; ".join(hard_errors)[:3000]
        return res
    if res.failed:
        res.status = "violated"
        res.reason = "; ".join(hard_errors)[:1000]
        return res
    if not vr.get("success") or res.verified == 0:
        res.reason = "verus did not report success (verified=%d errors=%d)" % (res.verified, res.errors)
        return res
    # every contracted function must appear among the verified ones
    got = {f["function"].split("::")[-1] for f in res.functions if f["success"]}
    for rec in ex.functions:
        if rec["contract"]:
            fn = rec.get("emit_name") or rec["item"].split("::")[-1].split(" ")[-1]
            if fn not in got:
                res.reason = "contracted function %s missing from Verus function breakdown" % rec["item"]
                return res
    res.status = "ok"
    if vacuity:
        res.vacuity = vacuity_check(ex, gen, extra, timeout)
        if res.vacuity["status"] != "ok":
            res.status = "undecided"
            res.reason = "vacuity check: %s" % res.vacuity["detail"]
    res.wall_s = time.time() - t0
    return res


def vacuity_check(ex, gen, extra, timeout):
    """Insert `assert(false)` at the entry of every contracted function: each must FAIL, otherwise the
    function's precondition (or an assumed callee contract reachable at entry) is contradictory."""
    text = open(gen).read()
    marker = "/*VACUITY*/"
    # contracted fns: splice @sig text is followed by the body `{`; we re-extract with an extra entry splice
    ex2 = Extraction(ex.repo, ex.unit_dir)
    ex2._vacuity = True
    orig_apply = ex2._apply_splice

    def apply_with_vacuity(it, sp, insert, edits):
        orig_apply(it, sp, insert, edits)
        insert(it.src.toks[it.body_open].end, "\n    proof { assert(false); } %s\n" % marker)
    ex2._apply_splice = apply_with_vacuity
    ex2.build()
    vgen = gen[:-3] + "__vacuity.rs"
    vtext = ex2.text()
    open(vgen, "w").write(vtext)
    expected = vtext.count(marker)
    cmd, js, diags, raw, wall = run_verus(vgen, extra, timeout)
    failing_lines = set()
    vlines = vtext.splitlines()
    for d in diags:
        if d.get("level") == "error" and "assertion failed" in d.get("message", ""):
            for s in d.get("spans", []):
                if s.get("is_primary") and marker in vlines[s["line_start"] - 1]:
                    failing_lines.add(s["line_start"])
    ok = expected > 0 and len(failing_lines) == expected
    try:
        os.remove(vgen)
    except OSError:
        pass
    return dict(status="ok" if ok else "failed", reachable_entries=len(failing_lines), expected=expected,
                detail="%d of %d contracted function entries proved reachable (assert(false) refuted)" % (
                    len(failing_lines), expected), wall_s=round(wall, 2))


def _extern_args(dep):
    d = os.path.join(VERIF_ROOT, ".cache", "verus-deps", "debug", "deps")
    import glob
    libs = sorted(glob.glob(os.path.join(d, "lib%s-*.rlib" % dep)))
    if not libs:
        raise ExtractError("verus dependency rlib for %s not built (run setup)" % dep)
    return ["--extern", "%s=%s" % (dep, libs[-1]), "-L", "dependency=%s" % d]


if __name__ == "__main__":
    _args = [a for a in sys.argv[2:]]
    _repo = _args[_args.index("--repo") + 1] if "--repo" in _args else "/repo"
    r = run_unit(sys.argv[1], repo=_repo, vacuity="--no-vacuity" not in _args)
    print(r.status, r.reason, r.verified, r.errors, r.wall_s)
    for o in r.failed:
        print("FAILED", o.name, o.repo_span)
    print("assumptions:", r.assumptions)
    print("vacuity:", r.vacuity)
