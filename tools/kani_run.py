"""Run Kani harnesses on the real crates: scratch copy of /repo's working tree + injected harness module.

Nothing in /repo is edited.  The scratch copy lives under /var/tmp/nexrad-verif/<tag>/ws, is guarded by
a lock and removed when the run ends.  Dependency artefacts are cached in /verif/.cache/kani-target/<crate>
(rebuilt from the registry on disk when absent)."""
import fcntl
import os
import re
import shutil
import subprocess
import sys
import time

VERIF_ROOT = os.path.dirname(os.path.dirname(os.path.abspath(__file__)))
SCRATCH_ROOT = "/var/tmp/nexrad-verif"
CACHE = os.path.join(VERIF_ROOT, ".cache", "kani-target")


class HarnessResult:
    def __init__(self, name):
        self.name = name
        self.status = "undecided"  # ok | failed | undecided
        self.reason = ""
        self.checks_total = 0
        self.checks_failed = 0
        self.failed_checks = []  # descriptions
        self.time_s = 0.0
        self.playback = None  # generated unit test text with concrete values
        self.values = None  # list of byte vectors
        self.covers = (0, 0)  # satisfied, total
        self.unwind_failed = False
        self.raw = ""

    def as_dict(self):
        return dict(name=self.name, status=self.status, reason=self.reason, checks=self.checks_total,
                    failed=self.checks_failed, failed_checks=self.failed_checks, time_s=self.time_s,
                    covers="%d/%d" % self.covers, concrete_values=self.values)


class KaniGroupResult:
    def __init__(self):
        self.harnesses = {}
        self.cmd = ""
        self.build_ok = False
        self.reason = ""
        self.wall_s = 0.0
        self.log_path = None
        self.stubs = []
        self.contracts = []


def prepare_workspace(tag, repo="/repo"):
    base = os.path.join(SCRATCH_ROOT, tag)
    os.makedirs(base, exist_ok=True)
    lock = open(os.path.join(base, ".lock"), "w")
    fcntl.flock(lock, fcntl.LOCK_EX)
    ws = os.path.join(base, "ws")
    # rsync -a keeps the source's mtimes; cargo decides freshness by mtime, so a file that is REPLACED BY AN OLDER
    # VERSION (a tree checked after a scratch copy with a later edit used the same target directory) would leave a stale
    # artefact of a dependency crate in place.  Every file rsync transfers is therefore touched.
    p = subprocess.run(["rsync", "-a", "--delete", "--itemize-changes", "--exclude", "/target", "--exclude", ".git",
                        repo + "/", ws + "/"], check=True, capture_output=True, text=True)
    now = time.time()
    for line in p.stdout.splitlines():
        if line.startswith(">f"):
            f = os.path.join(ws, line.split(" ", 1)[1])
            try:
                os.utime(f, (now, now))
            except OSError:
                pass
    os.makedirs(os.path.join(ws, ".cargo"), exist_ok=True)
    with open(os.path.join(ws, ".cargo", "config.toml"), "w") as f:
        f.write("[net]\noffline = true\n")
    return base, ws, lock


HOSTS = {"nexrad-decode": "src/messages.rs", "nexrad-data": "src/volume.rs"}  # harness module is a child of this module (sees its private items)


def inject(ws, crate, files, cfg="any(kani, verif_replay)", host=None):
    """copy harness files into a `verif_harness` child module of the crate's host module (lib.rs by default;
    for nexrad-decode `messages`, so that harnesses can name items of its private submodules)"""
    host = host or HOSTS.get(crate, "src/lib.rs")
    hostpath = os.path.join(ws, crate, host)
    if host.endswith("lib.rs"):
        hd = os.path.join(os.path.dirname(hostpath), "verif_harness")
    else:
        hd = os.path.join(hostpath[:-3], "verif_harness")
    os.makedirs(hd, exist_ok=True)
    mods = []
    for f in files:
        name = os.path.splitext(os.path.basename(f))[0]
        shutil.copy(f, os.path.join(hd, name + ".rs"))
        mods.append(name)
    with open(os.path.join(hd, "mod.rs"), "w") as f:
        f.write("#![allow(unused_imports, dead_code, clippy::all)]\n")
        for m in mods:
            f.write("pub mod %s;\n" % m)
    text = open(hostpath).read()
    if "mod verif_harness;" not in text:
        with open(hostpath, "a") as f:
            f.write("\n#[cfg(%s)]\nmod verif_harness;\n" % cfg)


def inject_contracts(ws, crate):
    """place the Kani contract attributes of kani/contracts.py in front of the real functions (scratch copy only)"""
    sys.path.insert(0, os.path.join(VERIF_ROOT, "kani"))
    import importlib
    import contracts
    importlib.reload(contracts)
    from vextract import Source, find_item
    done = []
    for c in contracts.CONTRACTS.get(crate, []):
        S = Source(ws, c["file"])
        it = find_item(S, c["select"], c.get("mod"))
        pos = S.toks[it.lo].start
        text = S.src[:pos] + c["attrs"].strip() + "\n" + S.src[pos:]
        open(S.path, "w").write(text)
        done.append("%s %s" % (c["file"], c["select"]))
    return done


def cleanup(base, lock):
    shutil.rmtree(os.path.join(base, "ws"), ignore_errors=True)
    try:
        fcntl.flock(lock, fcntl.LOCK_UN)
        lock.close()
    except Exception:
        pass


_ansi = re.compile(r"\x1b\[[0-9;]*m")


def parse_output(text, names):
    text = _ansi.sub("", text)
    res = {n: HarnessResult(n) for n in names}
    if re.search(r"^Thread \d+: Checking harness", text, re.M):
        # -j format: "Thread N: Checking harness X..." then later "Thread N: <newline> result block"
        cur = {}
        rebuilt = []
        chunks = re.split(r"^(Thread \d+): ?", text, flags=re.M)
        for i in range(1, len(chunks), 2):
            th, body = chunks[i], chunks[i + 1]
            m = re.match(r"Checking harness (\S+?)\.\.\.", body)
            if m:
                cur[th] = m.group(1)
            elif th in cur:
                body = re.split(r"^(?:Manual Harness Summary|Complete - )", body, flags=re.M)[0]
                rebuilt.append("Checking harness %s...\n%s\n" % (cur[th], body))
        text = "\n".join(rebuilt)
    # split per harness
    parts = re.split(r"^Checking harness (\S+?)\.\.\.\s*$", text, flags=re.M)
    # parts: [pre, name1, body1, name2, body2, ...]
    for i in range(1, len(parts), 2):
        full, body = parts[i], parts[i + 1]
        short = full.split("::")[-1]
        r = res.get(short) or res.get(full)
        if r is None:
            r = HarnessResult(short)
            res[short] = r
        r.raw = body[-6000:]
        m = re.search(r"\*\* (\d+) of (\d+) failed", body)
        if m:
            r.checks_failed, r.checks_total = int(m.group(1)), int(m.group(2))
        m = re.search(r"\*\* (\d+) of (\d+) cover properties satisfied", body)
        if m:
            r.covers = (int(m.group(1)), int(m.group(2)))
        m = re.search(r"Verification Time: ([0-9.]+)s", body)
        if m:
            r.time_s = float(m.group(1))
        for fm in re.finditer(r"^Failed Checks: (.*)$\n(?:^\s*File: \"([^\"]*)\", line (\d+), in (\S+)$)?", body, re.M):
            desc = fm.group(1).strip()
            if fm.group(2):
                desc += " @ %s:%s in %s" % (fm.group(2), fm.group(3), fm.group(4))
            r.failed_checks.append(desc)
        if re.search(r"unwinding assertion", " ".join(r.failed_checks)):
            r.unwind_failed = True
        pm = re.search(r"Concrete playback unit test for `[^`]*`:\s*```\s*(.*?)```", body, re.S)
        if pm:
            r.playback = pm.group(1)
            r.values = [[int(x) for x in re.findall(r"\d+", v)] for v in re.findall(r"vec!\[([^\]]*)\]", pm.group(1))[1:]] \
                if "vec![" in pm.group(1) else []
            # first vec![ is the outer vector when formatted on one line; handle multi-line form
            inner = re.findall(r"^\s*//\s*(.*)$\n\s*vec!\[([^\]]*)\]", pm.group(1), re.M)
            if inner:
                r.values = [dict(value=c.strip(), bytes=[int(x) for x in re.findall(r"\d+", v)]) for c, v in inner]
        if "VERIFICATION:- SUCCESSFUL" in body:
            r.status = "ok"
            if r.covers[1] and r.covers[0] < r.covers[1]:
                r.status = "undecided"
                r.reason = "vacuity: only %d of %d cover properties satisfiable" % r.covers
        elif "VERIFICATION:- FAILED" in body:
            if "CBMC timed out" in body or "out of memory" in body or "CBMC failed" in body or "timed out" in body:
                r.status = "undecided"
                r.reason = "CBMC timeout / out of memory"
            elif r.checks_failed == 0 and not r.failed_checks:
                r.status = "undecided"
                r.reason = "FAILED without failed checks (tool failure)"
            elif r.unwind_failed and all("unwinding assertion" in c for c in r.failed_checks):
                r.status = "undecided"
                r.reason = "unwinding bound too small"
            else:
                r.status = "failed"
        else:
            r.status = "undecided"
            r.reason = "no verdict in output (timeout or crash)"
    for n, r in res.items():
        if not r.raw and r.status == "undecided" and not r.reason:
            r.reason = "harness did not run (build failure, filter mismatch or timeout)"
    return res


def _invoke(ws, crate, target, harnesses, features, no_default_features, jobs, harness_timeout, total_timeout,
            extra_args, playback):
    cmd = ["cargo", "kani", "-p", crate, "--target-dir", target, "-Z", "function-contracts", "-Z", "stubbing",
           "-Z", "unstable-options", "--output-format", "terse", "--harness-timeout", "%ds" % harness_timeout]
    if playback:
        cmd += ["-Z", "concrete-playback", "--concrete-playback=print"]
    else:
        cmd += ["-j", str(jobs)]
    if no_default_features:
        cmd.append("--no-default-features")
    if features:
        cmd += ["--features", ",".join(features)]
    for h in harnesses:
        cmd += ["--harness", h]
    cmd += list(extra_args)
    env = dict(os.environ, CARGO_NET_OFFLINE="true")
    env.pop("RUSTUP_TOOLCHAIN", None)
    def _limits():
        import resource
        cap = 30 * 1024 ** 3   # no single CBMC/kani process may map more than 30 GB (62 GB machine, no swap)
        resource.setrlimit(resource.RLIMIT_AS, (cap, cap))
    try:
        p = subprocess.run(cmd, cwd=ws, env=env, capture_output=True, text=True, timeout=total_timeout,
                           preexec_fn=_limits)
        text = p.stdout + "\n" + p.stderr
    except subprocess.TimeoutExpired as e:
        so = e.stdout.decode(errors="replace") if isinstance(e.stdout, bytes) else (e.stdout or "")
        text = so + "\n[verif] total timeout after %ds\n" % total_timeout
        subprocess.run(["pkill", "-f", "cbmc.*" + re.escape(target)], capture_output=True)
    return " ".join(cmd), text


def run_group(tag, crate, harness_files, harnesses, repo="/repo", features=None, no_default_features=False,
              jobs=8, harness_timeout=600, total_timeout=3000, extra_args=(), playback=True, log_dir=None, host=None,
              contracts=True, target_tag=""):
    """run `harnesses` (names) of `crate` in parallel; failed harnesses are re-run sequentially with
    --concrete-playback=print to obtain the counterexample values.  Returns KaniGroupResult"""
    out = KaniGroupResult()
    t0 = time.time()
    base, ws, lock = prepare_workspace(tag, repo)
    tlock = None
    try:
        inject(ws, crate, harness_files, host=host)
        try:
            out.contracts = inject_contracts(ws, crate) if contracts else []
        except Exception as e:  # lost anchor => undecided, never an alarm
            out.reason = "contract injection failed: %s" % e
            out.harnesses = {h: HarnessResult(h) for h in harnesses}
            for r in out.harnesses.values():
                r.reason = out.reason
            return out
        target = os.path.join(CACHE, crate + ("-nd" if no_default_features else "") +
                              ("-" + "-".join(features) if features else "") + target_tag)
        os.makedirs(target, exist_ok=True)
        # one user of a target directory at a time, for the build AND the verification phase: cargo's own lock covers the
        # build only, and the goto binaries CBMC reads afterwards would be replaced by a concurrent build of another tree
        tlock = open(os.path.join(target, ".verif.lock"), "w")
        fcntl.flock(tlock, fcntl.LOCK_EX)
        out.cmd, text = _invoke(ws, crate, target, harnesses, features, no_default_features, jobs, harness_timeout,
                                total_timeout, extra_args, False)
        clean = _ansi.sub("", text)
        out.stubs = sorted(set(re.findall(r"^\s*- Stub: (.*)$", clean, re.M)))
        if "Checking harness" not in clean:
            errs = re.findall(r"^error.*$", clean, re.M)
            out.reason = "build failed: " + ("\n".join(errs[:8]) if errs else clean[-1500:])
            out.harnesses = {h: HarnessResult(h) for h in harnesses}
            for r in out.harnesses.values():
                r.reason = out.reason
        else:
            out.build_ok = True
            out.harnesses = parse_output(text, harnesses)
            failed = [h for h, r in out.harnesses.items() if r.status == "failed"]
            if failed and playback:
                _, text2 = _invoke(ws, crate, target, failed, features, no_default_features, 1, harness_timeout,
                                   total_timeout, extra_args, True)
                text += "\n===== concrete playback pass =====\n" + text2
                second = parse_output(text2, failed)
                for h in failed:
                    if second[h].playback:
                        out.harnesses[h].playback = second[h].playback
                        out.harnesses[h].values = second[h].values
        if log_dir:
            os.makedirs(log_dir, exist_ok=True)
            out.log_path = os.path.join(log_dir, "kani-%s.log" % tag)
            open(out.log_path, "w").write(text)
        return out
    finally:
        out.wall_s = time.time() - t0
        try:
            fcntl.flock(tlock, fcntl.LOCK_UN)
            tlock.close()
        except Exception:
            pass
        cleanup(base, lock)


if __name__ == "__main__":
    import json
    crate, files, names = sys.argv[1], sys.argv[2].split(","), sys.argv[3].split(",")
    r = run_group("cli-" + crate, crate, files, names, log_dir="/verif/gen/logs")
    print(r.cmd)
    print("build_ok", r.build_ok, r.reason, "wall", round(r.wall_s, 1))
    for h in r.harnesses.values():
        print(json.dumps(h.as_dict()))
