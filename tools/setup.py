"""Pre-build caches: Kani dependency artefacts per crate (codegen only), Verus start-up cache."""
import os
import subprocess
import sys
import time

sys.path.insert(0, os.path.dirname(os.path.abspath(__file__)))
import kani_run  # noqa: E402

ROOT = kani_run.VERIF_ROOT


def prebuild(crate, no_default, features, tag, files, host, contracts):
    """codegen-only build of one harness group so that the dependency artefacts of its target dir exist"""
    t0 = time.time()
    base, ws, lock = kani_run.prepare_workspace("setup-" + crate + tag)
    try:
        kani_run.inject(ws, crate, files, host=host)
        if contracts:
            kani_run.inject_contracts(ws, crate)
        target = os.path.join(kani_run.CACHE, crate + ("-nd" if no_default else "") +
                              ("-" + "-".join(features) if features else "") + tag)
        cmd = ["cargo", "kani", "-p", crate, "--target-dir", target, "-Z", "function-contracts", "-Z", "stubbing",
               "-Z", "unstable-options", "--only-codegen"]
        if no_default:
            cmd.append("--no-default-features")
        if features:
            cmd += ["--features", ",".join(features)]
        env = dict(os.environ, CARGO_NET_OFFLINE="true")
        env.pop("RUSTUP_TOOLCHAIN", None)
        p = subprocess.run(cmd, cwd=ws, env=env, capture_output=True, text=True, timeout=3000)
        print("setup: kani prebuild %s%s: exit %d in %.0fs" % (crate, tag, p.returncode, time.time() - t0))
        if p.returncode:
            print(p.stderr[-1500:])
    finally:
        kani_run.cleanup(base, lock)


if __name__ == "__main__":
    os.makedirs(os.path.join(ROOT, "gen"), exist_ok=True)
    warm = os.path.join(ROOT, "gen", "warm.rs")
    open(warm, "w").write("use vstd::prelude::*;\nverus!{ proof fn t() ensures 1 + 1 == 2int {} }\nfn main(){}\n")
    t0 = time.time()
    subprocess.run(["verus", warm], capture_output=True, cwd=os.path.dirname(warm))
    print("setup: verus warm-up %.0fs" % (time.time() - t0))
    t0 = time.time()
    p = subprocess.run(["cargo", "+1.98.1-x86_64-unknown-linux-gnu", "build", "--offline", "--target-dir",
                        os.path.join(ROOT, ".cache", "verus-deps")], cwd=os.path.join(ROOT, "tools", "verus_deps"),
                       env=dict(os.environ, CARGO_NET_OFFLINE="true"), capture_output=True, text=True)
    print("setup: verus dependency rlibs (chrono): exit %d in %.0fs" % (p.returncode, time.time() - t0))
    if p.returncode:
        print(p.stderr[-1500:])
    import registry
    seen = set()
    for spec in registry.CHECKS.values():
        for g in spec.get("kani", []):
            if g.get("role") == "witness":
                continue   # witness groups build on first use (thorough tier / fallback)
            key = (g["crate"], g.get("no_default_features", False), tuple(g.get("features") or ()), g.get("tag", ""))
            if key in seen:
                continue
            seen.add(key)
            files = [os.path.join(ROOT, "kani", g["crate"], f) for f in g["files"]]
            prebuild(key[0], key[1], list(key[2]) or None, key[3], files, g.get("host"), g.get("contracts", True))
