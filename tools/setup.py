"""Pre-build caches: Kani dependency artefacts per crate (codegen only), Verus start-up cache."""
import os
import subprocess
import sys
import time

sys.path.insert(0, os.path.dirname(os.path.abspath(__file__)))
import kani_run  # noqa: E402

ROOT = kani_run.VERIF_ROOT


def prebuild(crate, no_default=False, features=None):
    t0 = time.time()
    base, ws, lock = kani_run.prepare_workspace("setup-" + crate)
    try:
        d = os.path.join(ROOT, "kani", crate)
        files = [os.path.join(d, f) for f in sorted(os.listdir(d)) if f.endswith(".rs")] if os.path.isdir(d) else []
        if not files:
            return
        kani_run.inject(ws, crate, files)
        target = os.path.join(kani_run.CACHE, crate + ("-nd" if no_default else "") + ("-" + "-".join(features) if features else ""))
        cmd = ["cargo", "kani", "-p", crate, "--target-dir", target, "-Z", "function-contracts", "-Z", "stubbing",
               "-Z", "unstable-options", "--only-codegen"]
        if no_default:
            cmd.append("--no-default-features")
        if features:
            cmd += ["--features", ",".join(features)]
        env = dict(os.environ, CARGO_NET_OFFLINE="true")
        env.pop("RUSTUP_TOOLCHAIN", None)
        p = subprocess.run(cmd, cwd=ws, env=env, capture_output=True, text=True, timeout=3000)
        print("setup: kani prebuild %s: exit %d in %.0fs" % (crate, p.returncode, time.time() - t0))
        if p.returncode:
            print(p.stderr[-1500:])
    finally:
        kani_run.cleanup(base, lock)


if __name__ == "__main__":
    os.makedirs(os.path.join(ROOT, "gen"), exist_ok=True)
    warm = os.path.join(ROOT, "gen", "warm.rs")
    open(warm, "w").write("use vstd::prelude::*;\nverus!{ proof fn t() ensures 1 + 1 == 2int {} }\nfn main(){}\n")
    t0 = time.time()
    subprocess.run(["verus", warm], capture_output=True, cwd=os.path.dirname(warm))
    print("setup: verus warm-up %.0fs" % (time.time() - t0))
    t0 = time.time()
    p = subprocess.run(["cargo", "+1.98.1-x86_64-unknown-linux-gnu", "build", "--offline", "--target-dir",
                        os.path.join(ROOT, ".cache", "verus-deps")], cwd=os.path.join(ROOT, "tools", "verus_deps"),
                       env=dict(os.environ, CARGO_NET_OFFLINE="true"), capture_output=True, text=True)
    print("setup: verus dependency rlibs (chrono): exit %d in %.0fs" % (p.returncode, time.time() - t0))
    if p.returncode:
        print(p.stderr[-1500:])
    import registry
    seen = set()
    for spec in registry.CHECKS.values():
        for g in spec.get("kani", []):
            key = (g["crate"], g.get("no_default_features", False), tuple(g.get("features") or ()))
            if key not in seen:
                seen.add(key)
                prebuild(key[0], key[1], list(key[2]) or None)
