#!/usr/bin/env python3
"""Rewrite the seeded-change table in DESIGN.md (between the SEED-TABLE markers) from gen/logs/seed_results.txt
(written by tools/seed_all.sh) and seeded/*/meta.json."""
import json, os, re
ROOT = os.path.dirname(os.path.dirname(os.path.abspath(__file__)))
res = {}
for line in open(os.path.join(ROOT, "seeded/RESULTS.txt")):
    if " :: " not in line:
        continue
    name, r = line.rstrip("\n").split(" :: ", 1)
    res[name] = r
rows = []
for d in sorted(x for x in os.listdir(os.path.join(ROOT, "seeded")) if os.path.isdir(os.path.join(ROOT, "seeded", x))):
    meta = json.load(open(os.path.join(ROOT, "seeded", d, "meta.json")))
    r = res.get(d, "")
    parts = [p for p in r.split("|") if p]
    exits = re.findall(r"== (C\d+) exit=(\d)", r)
    obl = []
    for p in parts:
        m = re.search(r"replay=/verif/replay/C\d+/([^ ]+?)\.j", p)
        if m:
            o = m.group(1)
            o = re.sub(r"^kani_nexrad-(decode|data|model)_", r"K:", o)
            o = re.sub(r"^(\w+?)_fn_", r"V:\1 / ", o)
            obl.append(o[:70])
    und = [p[10:150] for p in parts if p.startswith("UNDECIDED")]
    if not exits:
        verdict = "not run"
    elif any(e == "1" for _, e in exits):
        verdict = "**caught** (exit 1)"
    else:
        verdict = "undecided (exit 2)"
    what = meta.get("summary", "")
    what = what[:150] + ("…" if len(what) > 150 else "")
    rows.append("| `%s` | %s | %s | %s |" % (d, what.replace("|", "\\|"), verdict,
                                          "; ".join(dict.fromkeys(obl))[:260] or ("; ".join(und)[:200]).replace("|", "\\|")))
table = "| seeded change | what it does | quick check | failing obligation(s) / why undecided |\n|---|---|---|---|\n" + "\n".join(rows) + "\n"
p = os.path.join(ROOT, "DESIGN.md")
s = open(p).read()
a, b = "<!-- SEED-TABLE-BEGIN -->\n", "<!-- SEED-TABLE-END -->"
if a in s:
    s = s[:s.index(a) + len(a)] + table + s[s.index(b):]
    open(p, "w").write(s)
    print("table rewritten: %d rows" % len(rows))
else:
    print(table)
