#!/usr/bin/env python3
"""Rewrite the as-built summary table in DESIGN.md (between the ASBUILT markers) from evidence/*.json and the registry."""
import json, os, sys
ROOT = os.path.dirname(os.path.dirname(os.path.abspath(__file__)))
sys.path.insert(0, os.path.join(ROOT, "tools"))
from registry import CHECKS, NOT_APPLICABLE
rows = []
for pid in sorted(CHECKS):
    c = CHECKS[pid]
    ev = json.load(open(os.path.join(ROOT, "evidence", pid + ".json")))
    cov = ev["coverage"]
    units = ", ".join("`%s`" % u["unit"] for u in c.get("verus", [])) or "—"
    kc = len(cov.get("kani_complete_harnesses", []))
    kb = len(cov.get("bounded", []))
    nfn = len([f for f in cov.get("functions_under_contract", []) if f.get("contract", True)])
    allh = [h for g in c.get("kani", []) for h in g["harnesses"]]
    th = len([h for h in allh if h.get("tier") == "thorough"])
    rows.append("| %s | %s | %d complete, %d bounded (quick); %d more thorough-only | %d | %d / %d | %.0f s |" % (
        pid, units, kc, kb, th, nfn, cov["discharged"], cov["obligations"], ev["wall_s"]))
table = ("| id | Verus units | Kani harnesses | real functions under Verus contract | obligations discharged (quick) | wall (quick, alone) |\n"
         "|---|---|---|---|---|---|\n" + "\n".join(rows) + "\n\nNot applicable: " +
         "; ".join("**%s** (%s)" % (k, v.split(";")[0].split(":")[0][:110]) for k, v in sorted(NOT_APPLICABLE.items())) + ".\n")
p = os.path.join(ROOT, "DESIGN.md")
s = open(p).read()
a, b = "<!-- ASBUILT-BEGIN -->\n", "<!-- ASBUILT-END -->"
if a in s:
    s = s[:s.index(a) + len(a)] + table + s[s.index(b):]
    open(p, "w").write(s)
    print("as-built table rewritten")
else:
    print(table)
