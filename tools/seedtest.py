#!/usr/bin/env python3
"""seedtest.py <patch.diff> <property id> [more ids]  — run checks against a seeded change WITHOUT touching /repo:
a scratch copy of /repo's working tree gets the patch, and ./check runs with VERIF_REPO pointing at it.
Evidence of these runs goes to gen/seed-evidence (never into evidence/)."""
import os
import shutil
import subprocess
import sys

ROOT = os.path.dirname(os.path.dirname(os.path.abspath(__file__)))


def main():
    patch = os.path.abspath(sys.argv[1])
    ids = sys.argv[2:]
    tier = os.environ.get("VERIF_TIER", "quick")
    tag = os.path.basename(os.path.dirname(patch)) + "-" + str(os.getpid())
    ws = "/var/tmp/nexrad-verif/seed-%s/ws" % tag
    os.makedirs(ws, exist_ok=True)
    subprocess.run(["rsync", "-a", "--delete", "--exclude", "/target", "--exclude", ".git", "/repo/", ws + "/"], check=True)
    p = subprocess.run(["patch", "-p1", "-s", "-d", ws, "-i", patch], capture_output=True, text=True)
    if p.returncode:
        print("patch does not apply:", p.stdout, p.stderr)
        return 3
    rc_all = {}
    try:
        for pid in ids:
            env = dict(os.environ, VERIF_REPO=ws, VERIF_EVIDENCE_DIR=os.path.join(ROOT, "gen", "seed-evidence"))
            r = subprocess.run([os.path.join(ROOT, "check"), pid, "--tier", tier], env=env, capture_output=True, text=True, cwd=ROOT)
            rc_all[pid] = r.returncode
            lines = [l for l in r.stdout.splitlines() if l.startswith(("VIOLATION", "UNDECIDED", "KNOWN", "  obligation", "  at", pid))]
            print("== %s exit=%d" % (pid, r.returncode))
            print("\n".join(lines[:12]))
    finally:
        shutil.rmtree(os.path.dirname(ws), ignore_errors=True)
    return 0 if any(v == 1 for v in rc_all.values()) else 1


if __name__ == "__main__":
    sys.exit(main())
