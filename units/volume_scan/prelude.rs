use nexrad_decode::messages::{Message, MessageContents, decode_messages};
use nexrad_model::data::{MomentData, Radial, RadialStatus, Scan, Sweep};
use std::io::Cursor;
use bzip2::read::BzDecoder;

// ---- ASSUMED: bzip2 (C library behind FFI).  unbz(bytes) is what BzDecoder + read_to_end produce -----
pub uninterp spec fn unbz(b: Seq<u8>) -> Option<Seq<u8>>;
pub mod bzip2 {
    use super::*;
    #[verifier::external_body] pub struct Error { _p: () }
    pub mod read {
        use super::super::*;
        pub struct BzDecoder<'a> { pub input: &'a [u8] }
        impl<'a> BzDecoder<'a> {
            #[verifier::external_body]
            pub fn new(r: &'a [u8]) -> (d: Self) ensures d.input@ == r@ { unimplemented!() }
            // stands for <BzDecoder<&[u8]> as std::io::Read>::read_to_end
            #[verifier::external_body]
            pub fn read_to_end(&mut self, buf: &mut Vec<u8>) -> (res: std::io::Result<usize>)
                ensures match res {
                    Ok(_) => unbz(old(self).input@) is Some && final(buf)@ == old(buf)@ + unbz(old(self).input@)->Some_0,
                    Err(_) => unbz(old(self).input@) is None,
                }
            { unimplemented!() }
        }
    }
}
pub mod bincode { #[verifier::external_body] pub struct Error { _p: () } }
pub mod reqwest { #[verifier::external_body] pub struct Error { _p: () } }

// ---- std::io::Cursor over a byte slice: what remains initially is the slice ------------------------
#[verifier::external_type_specification]
#[verifier::external_body]
#[verifier::reject_recursive_types(T)]
pub struct ExCursor<T>(std::io::Cursor<T>);
pub uninterp spec fn cursor_fresh<T>(c: &std::io::Cursor<T>, inner: T) -> bool;
pub assume_specification<T> [ std::io::Cursor::<T>::new ] (inner: T) -> (c: std::io::Cursor<T>)
    ensures cursor_fresh(&c, inner);
pub broadcast axiom fn axiom_fresh_cursor_remaining(c: &std::io::Cursor<&[u8]>, inner: &[u8])
    ensures #[trigger] cursor_fresh(c, inner) ==> remaining(c) == inner@;

// ---- contracts proved elsewhere -------------------------------------------------------------------
// decode_messages: result == decode_stream(bytes)  (unit `framing`: spec_stream, all byte streams)
pub uninterp spec fn decode_stream(b: Seq<u8>) -> Option<Seq<Message>>;
// into_radial: the radial a type-31 message maps to (Kani C07 harnesses decide what radial_of is)
pub uninterp spec fn radial_of(m: nexrad_decode::messages::digital_radar_data::Message) -> Option<Radial>;

// ---- the property's spec (C01), written from the statement ------------------------------------------
spec fn file_records(f: Seq<u8>) -> Seq<Seq<u8>> { if f.len() < 24 { Seq::empty() } else { tile(f.skip(24)) } }

// the message list of one LDM record: bzip2 records are decompressed first; a payload that itself looks
// compressed cannot be decoded (C05)
spec fn record_msgs(rec: Seq<u8>) -> Option<Seq<Message>> {
    let payload = if is_bz(rec) { unbz(rec.skip(4)) } else { Some(rec) };
    match payload { None => None, Some(p) => if is_bz(p) { None } else { decode_stream(p) } }
}

// left fold over messages: type-31 messages append their radial, the first VOL block fixes the VCP number,
// every other message type contributes nothing
spec fn msgs_fold(ms: Seq<Message>, vcp: Option<u16>, acc: Seq<Radial>) -> Option<(Option<u16>, Seq<Radial>)>
    decreases ms.len()
{
    if ms.len() == 0 { Some((vcp, acc)) } else {
        match ms.first().contents {
            MessageContents::DigitalRadarData(m) => {
                let v = if vcp is None && m.volume_data_block is Some {
                    Some(m.volume_data_block->Some_0.volume_coverage_pattern_number) } else { vcp };
                match radial_of(*m) { Some(r) => msgs_fold(ms.drop_first(), v, acc.push(r)), None => None }
            },
            _ => msgs_fold(ms.drop_first(), vcp, acc),
        }
    }
}

spec fn recs_fold(rs: Seq<Seq<u8>>, vcp: Option<u16>, acc: Seq<Radial>) -> Option<(Option<u16>, Seq<Radial>)>
    decreases rs.len()
{
    if rs.len() == 0 { Some((vcp, acc)) } else {
        match record_msgs(rs.first()) {
            None => None,
            Some(ms) => match msgs_fold(ms, vcp, acc) { None => None, Some(p) => recs_fold(rs.drop_first(), p.0, p.1) },
        }
    }
}

// (VCP number of the first VOL block, all type-31 radials in file order); None when any stage fails
spec fn file_fold(f: Seq<u8>) -> Option<(Option<u16>, Seq<Radial>)> { recs_fold(file_records(f), None, Seq::empty()) }

proof fn lemma_msgs_fold_nil(vcp: Option<u16>, acc: Seq<Radial>)
    ensures msgs_fold(Seq::empty(), vcp, acc) == Some((vcp, acc)) {}
proof fn lemma_recs_fold_nil(vcp: Option<u16>, acc: Seq<Radial>)
    ensures recs_fold(Seq::empty(), vcp, acc) == Some((vcp, acc)) {}
proof fn lemma_msgs_fold_unfold(ms: Seq<Message>, vcp: Option<u16>, acc: Seq<Radial>)
    requires ms.len() > 0
    ensures msgs_fold(ms, vcp, acc) == (match ms.first().contents {
            MessageContents::DigitalRadarData(m) => {
                let v = if vcp is None && m.volume_data_block is Some {
                    Some(m.volume_data_block->Some_0.volume_coverage_pattern_number) } else { vcp };
                match radial_of(*m) { Some(r) => msgs_fold(ms.drop_first(), v, acc.push(r)), None => None }
            },
            _ => msgs_fold(ms.drop_first(), vcp, acc) })
{}
proof fn lemma_recs_fold_unfold(rs: Seq<Seq<u8>>, vcp: Option<u16>, acc: Seq<Radial>)
    requires rs.len() > 0
    ensures recs_fold(rs, vcp, acc) == (match record_msgs(rs.first()) {
            None => None,
            Some(ms) => match msgs_fold(ms, vcp, acc) { None => None, Some(p) => recs_fold(rs.drop_first(), p.0, p.1) } })
{}
