@sig ret=r
    ensures r.coverage_pattern_number == coverage_pattern_number, r.sweeps == sweeps
