@sig ret=res
    // C01: the scan's sweeps, read in order, are exactly the file's type-31 radials in file order, grouped
    // into maximal runs of equal elevation number; the VCP number is that of the first volume data block;
    // metadata messages contribute nothing.  (file_radials is the property's spec, written over the
    // record tiling, unbz, decode_stream and radial_of.)
    ensures match res {
        Ok(scan) => file_fold(self.0@) matches Some(f) && f.0 == Some(scan.coverage_pattern_number)
            && flat(scan.sweeps@) == f.1
            && (forall|i: int| 0 <= i < scan.sweeps@.len() ==> (#[trigger] scan.sweeps@[i]).radials@.len() > 0)
            && (forall|i: int| 0 <= i < scan.sweeps@.len() ==> uniform(#[trigger] scan.sweeps@[i]))
            && (forall|i: int| 0 <= i < scan.sweeps@.len() - 1 ==>
                    (#[trigger] scan.sweeps@[i]).elevation_number != scan.sweeps@[i + 1].elevation_number),
        Err(_) => file_fold(self.0@) is None || file_fold(self.0@)->Some_0.0 is None,
    }
@entry
    let ghost recs = file_records(self.0@);
    proof { lemma_recs_fold_nil(None, Seq::empty()); }
@before "for mut record in self.records()"
    proof { assert(recs.skip(0) =~= recs); }
@loop 0 header iter=rit
    invariant
        rit.snapshot@.remaining().len() == recs.len(),
        forall|i: int| 0 <= i < recs.len() ==> (#[trigger] rit.snapshot@.remaining()[i]).view() == recs[i],
        recs == file_records(self.0@),
        recs_fold(recs, None, Seq::empty()) == recs_fold(recs.skip(rit.history@.len() as int), coverage_pattern_number, radials@),
@loop 0 body-entry
    let ghost ri = rit.history@.len() as int;
    let ghost rec_bytes = recs[ri];
    let ghost vcp0 = coverage_pattern_number;
    let ghost acc0 = radials@;
    proof {
        assert(record.view() == rec_bytes);
        lemma_recs_fold_unfold(recs.skip(ri), vcp0, acc0);
        assert(recs.skip(ri).first() == rec_bytes);
        assert(recs.skip(ri).drop_first() =~= recs.skip(ri + 1));
    }
@loop 1 header iter=mit
    invariant
        mit.snapshot@.remaining() == payload_msgs,
        msgs_fold(payload_msgs, vcp0, acc0) == msgs_fold(payload_msgs.skip(mit.history@.len() as int), coverage_pattern_number, radials@),
        record_msgs(rec_bytes) == Some(payload_msgs),
        recs == file_records(self.0@),
        0 <= ri < recs.len(), rec_bytes == recs[ri],
        recs_fold(recs, None, Seq::empty()) == recs_fold(recs.skip(ri), vcp0, acc0),
        recs_fold(recs.skip(ri), vcp0, acc0) == (match msgs_fold(payload_msgs, vcp0, acc0) {
            Some(p) => recs_fold(recs.skip(ri + 1), p.0, p.1), None => None }),
@before "for message in messages"
    let ghost payload_msgs = messages@;
    proof { lemma_msgs_fold_nil(coverage_pattern_number, radials@); assert(payload_msgs.skip(0) =~= payload_msgs); }
@loop 1 body-entry
    let ghost mi = mit.history@.len() as int;
    let ghost vcp1 = coverage_pattern_number;
    let ghost acc1 = radials@;
    proof {
        lemma_msgs_fold_unfold(payload_msgs.skip(mi), vcp1, acc1);
        assert(payload_msgs.skip(mi).first() == message);
        assert(payload_msgs.skip(mi).drop_first() =~= payload_msgs.skip(mi + 1));
    }
@loop 1 after
    proof {
        assert(payload_msgs.skip(payload_msgs.len() as int) =~= Seq::<Message>::empty());
        lemma_msgs_fold_nil(coverage_pattern_number, radials@);
    }
@before "Ok(Scan::new("
    proof {
        assert(recs.skip(recs.len() as int) =~= Seq::<Seq<u8>>::empty());
        lemma_recs_fold_nil(coverage_pattern_number, radials@);
    }
