@sig ret=res
    // C05: decompressing an uncompressed record is an error; otherwise exactly the bytes after the 4-byte
    // prefix go to the bzip2 decoder (ASSUMED: BzDecoder + read_to_end == unbz), result wrapped unchanged
    ensures match res {
        Ok(rec) => is_bz(self.view()) && unbz(self.view().skip(4)) == Some(rec.view()),
        Err(_) => !is_bz(self.view()) || unbz(self.view().skip(4)) is None,
    }
@entry
    proof { assert(self.view().subrange(4, self.view().len() as int) =~= self.view().skip(4)); }
