@sig ret=res
    // C05: decoding a compressed record is an error; otherwise the record's own bytes are decoded as a
    // message stream (contract of decode_messages, proved in unit `framing`)
    ensures match res {
        Ok(ms) => !is_bz(self.view()) && decode_stream(self.view()) == Some(ms@),
        Err(_) => is_bz(self.view()) || decode_stream(self.view()) is None,
    }
@entry
    broadcast use axiom_fresh_cursor_remaining;
