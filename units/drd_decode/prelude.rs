use vstd::std_specs::iter::IteratorSpec;

// ---- abstract view of a decoded message (gate buffers as sequences) ---------------------------------------------------
ghost struct AGen { header: GenericDataBlockHeader, data: Seq<u8> }
ghost struct AMsg {
    header: Header,
    vol: Option<VolumeDataBlock>, elv: Option<ElevationDataBlock>, rad: Option<RadialDataBlock>,
    refl: Option<AGen>, vel: Option<AGen>, sw: Option<AGen>, zdr: Option<AGen>,
    phi: Option<AGen>, rho: Option<AGen>, cfp: Option<AGen>,
}
spec fn oagen(o: Option<GenericDataBlock>) -> Option<AGen> {
    match o { Some(g) => Some(AGen { header: g.header, data: g.encoded_data@ }), None => None }
}
spec fn abs(m: Message) -> AMsg {
    AMsg { header: m.header, vol: m.volume_data_block, elv: m.elevation_data_block, rad: m.radial_data_block,
           refl: oagen(m.reflectivity_data_block), vel: oagen(m.velocity_data_block), sw: oagen(m.spectrum_width_data_block),
           zdr: oagen(m.differential_reflectivity_data_block), phi: oagen(m.differential_phase_data_block),
           rho: oagen(m.correlation_coefficient_data_block), cfp: oagen(m.specific_diff_phase_data_block) }
}
spec fn amsg_new(h: Header) -> AMsg {
    AMsg { header: h, vol: None, elv: None, rad: None, refl: None, vel: None, sw: None, zdr: None, phi: None, rho: None, cfp: None }
}

// ---- block names -----------------------------------------------------------------------------------------------------
pub open spec fn is_name(b: Seq<u8>, c0: u8, c1: u8, c2: u8) -> bool { b.len() == 3 && b[0] == c0 && b[1] == c1 && b[2] == c2 }
// ASSUMED std contract: String::from_utf8_lossy(bytes).to_string() equals a three-letter ASCII name exactly when the
// bytes are those letters (non-UTF-8 bytes turn into U+FFFD, which is no ASCII letter)
pub uninterp spec fn lossy3(b: Seq<u8>) -> Seq<char>;
pub broadcast axiom fn axiom_lossy3_names(b: Seq<u8>)
    ensures
        (#[trigger] lossy3(b) == "VOL"@) == is_name(b, 86, 79, 76), (lossy3(b) == "ELV"@) == is_name(b, 69, 76, 86),
        (lossy3(b) == "RAD"@) == is_name(b, 82, 65, 68), (lossy3(b) == "REF"@) == is_name(b, 82, 69, 70),
        (lossy3(b) == "VEL"@) == is_name(b, 86, 69, 76), (lossy3(b) == "SW "@) == is_name(b, 83, 87, 32),
        (lossy3(b) == "ZDR"@) == is_name(b, 90, 68, 82), (lossy3(b) == "PHI"@) == is_name(b, 80, 72, 73),
        (lossy3(b) == "RHO"@) == is_name(b, 82, 72, 79), (lossy3(b) == "CFP"@) == is_name(b, 67, 70, 80);
impl DataBlockId {
    #[verifier::external_body]
    fn data_block_name(&self) -> (r: String)
        ensures r@ == lossy3(self.data_name@)
    { unimplemented!() }
}

// ---- shims (R-shim: the bodies ARE the replaced std expressions) -----------------------------------------------------
#[verifier::external_body]
fn shim_be_u32s(raw: &Vec<u8>) -> (res: Result<Vec<u32>>)
    ensures res matches Ok(v) && v@.len() == raw@.len() / 4
        && forall|i: int| 0 <= i < v@.len() ==> #[trigger] v@[i] == be32u(raw@, 4 * i)
{
    raw.chunks_exact(size_of::<u32>())
        .map(|v| { v.try_into().map_err(|_| Error::DecodingError("message pointers".to_string())).map(u32::from_be_bytes) })
        .collect::<Result<Vec<_>>>()
}
#[verifier::external_body]
fn shim_format_unknown_block(fmt: &str, id: DataBlockId) -> (r: String) { unimplemented!() }

// ---- the property's spec (C02), written from the statement -----------------------------------------------------------
spec fn sub(w: Seq<u8>, at: int, n: int) -> Seq<u8> { w.subrange(at, at + n) }

// effect of the block at absolute offset `at` on the message, and where the reader ends; None: does not fit / unknown name
#[verifier::opaque]
spec fn apply_block(w: Seq<u8>, at: int, m: AMsg) -> Option<(AMsg, int)> {
    if at < 0 || at + 4 > w.len() { None } else {
        let nm = DataBlockId::parse(sub(w, at, 4)).data_name@;
        if is_name(nm, 86, 79, 76) {
            if at + 52 > w.len() { None } else { Some((AMsg { vol: Some(VolumeDataBlock::parse(sub(w, at, 52))), ..m }, at + 52)) }
        } else if is_name(nm, 69, 76, 86) {
            if at + 12 > w.len() { None } else { Some((AMsg { elv: Some(ElevationDataBlock::parse(sub(w, at, 12))), ..m }, at + 12)) }
        } else if is_name(nm, 82, 65, 68) {
            if at + 28 > w.len() { None } else { Some((AMsg { rad: Some(RadialDataBlock::parse(sub(w, at, 28))), ..m }, at + 28)) }
        } else if at + 28 > w.len() { None } else {
            let h = GenericDataBlockHeader::parse(sub(w, at, 28));
            let n = h.number_of_data_moment_gates as int * (h.data_word_size as int / 8);
            if at + 28 + n > w.len() { None } else {
                let g = Some(AGen { header: h, data: sub(w, at + 28, n) });
                let e = at + 28 + n;
                if is_name(nm, 82, 69, 70) { Some((AMsg { refl: g, ..m }, e)) }
                else if is_name(nm, 86, 69, 76) { Some((AMsg { vel: g, ..m }, e)) }
                else if is_name(nm, 83, 87, 32) { Some((AMsg { sw: g, ..m }, e)) }
                else if is_name(nm, 90, 68, 82) { Some((AMsg { zdr: g, ..m }, e)) }
                else if is_name(nm, 80, 72, 73) { Some((AMsg { phi: g, ..m }, e)) }
                else if is_name(nm, 82, 72, 79) { Some((AMsg { rho: g, ..m }, e)) }
                else if is_name(nm, 67, 70, 80) { Some((AMsg { cfp: g, ..m }, e)) }
                else { None }
            }
        }
    }
}

#[verifier::opaque]
spec fn fold_blocks(w: Seq<u8>, s: int, ptrs: Seq<u32>, i: int, m: AMsg, pos: int) -> Option<(AMsg, int)>
    decreases ptrs.len() - i
{
    if i < 0 || i >= ptrs.len() { Some((m, pos)) } else {
        match apply_block(w, s + ptrs[i], m) { None => None, Some(p) => fold_blocks(w, s, ptrs, i + 1, p.0, p.1) }
    }
}
spec fn ptrs_of(w: Seq<u8>, at: int, c: int) -> Seq<u32> { Seq::new(c as nat, |i: int| be32u(w, at + 4 * i)) }

// the message that starts at absolute offset s of w, and where the reader ends (after the last block in pointer order)
spec fn drd_spec(w: Seq<u8>, s: int) -> Option<(AMsg, int)> {
    if s < 0 || s + 32 > w.len() { None } else {
        let h = Header::parse(sub(w, s, 32));
        let c = h.data_block_count as int;
        if s + 32 + 4 * c > w.len() { None } else {
            fold_blocks(w, s, ptrs_of(w, s + 32, c), 0, amsg_new(h), s + 32 + 4 * c)
        }
    }
}

proof fn lemma_fold_unfold(w: Seq<u8>, s: int, ptrs: Seq<u32>, i: int, m: AMsg, pos: int)
    ensures fold_blocks(w, s, ptrs, i, m, pos) == (if i < 0 || i >= ptrs.len() { Some((m, pos)) } else {
        match apply_block(w, s + ptrs[i], m) { None => None::<(AMsg, int)>, Some(p) => fold_blocks(w, s, ptrs, i + 1, p.0, p.1) } })
{ reveal(fold_blocks); }

// apply_block, case by case (one small query each)
spec fn name_at(w: Seq<u8>, at: int) -> Seq<u8> { DataBlockId::parse(sub(w, at, 4)).data_name@ }
spec fn fixed_name(nm: Seq<u8>) -> bool { is_name(nm, 86, 79, 76) || is_name(nm, 69, 76, 86) || is_name(nm, 82, 65, 68) }
proof fn lemma_ab_short(w: Seq<u8>, at: int, m: AMsg)
    ensures (at < 0 || at + 4 > w.len()) ==> apply_block(w, at, m) is None
{ reveal(apply_block); }
proof fn lemma_ab_vol(w: Seq<u8>, at: int, m: AMsg)
    requires 0 <= at, at + 4 <= w.len(), is_name(name_at(w, at), 86, 79, 76)
    ensures apply_block(w, at, m) == (if at + 52 > w.len() { None } else { Some((AMsg { vol: Some(VolumeDataBlock::parse(sub(w, at, 52))), ..m }, at + 52)) })
{ reveal(apply_block); }
proof fn lemma_ab_elv(w: Seq<u8>, at: int, m: AMsg)
    requires 0 <= at, at + 4 <= w.len(), is_name(name_at(w, at), 69, 76, 86)
    ensures apply_block(w, at, m) == (if at + 12 > w.len() { None } else { Some((AMsg { elv: Some(ElevationDataBlock::parse(sub(w, at, 12))), ..m }, at + 12)) })
{ reveal(apply_block); }
proof fn lemma_ab_rad(w: Seq<u8>, at: int, m: AMsg)
    requires 0 <= at, at + 4 <= w.len(), is_name(name_at(w, at), 82, 65, 68)
    ensures apply_block(w, at, m) == (if at + 28 > w.len() { None } else { Some((AMsg { rad: Some(RadialDataBlock::parse(sub(w, at, 28))), ..m }, at + 28)) })
{ reveal(apply_block); }
// the generic (moment) case: header, then gates x word-bytes data bytes, then the slot chosen by the name
spec fn gen_len(w: Seq<u8>, at: int) -> int {
    let h = GenericDataBlockHeader::parse(sub(w, at, 28));
    h.number_of_data_moment_gates as int * (h.data_word_size as int / 8)
}
spec fn gen_put(nm: Seq<u8>, m: AMsg, g: Option<AGen>) -> Option<AMsg> {
    if is_name(nm, 82, 69, 70) { Some(AMsg { refl: g, ..m }) }
    else if is_name(nm, 86, 69, 76) { Some(AMsg { vel: g, ..m }) }
    else if is_name(nm, 83, 87, 32) { Some(AMsg { sw: g, ..m }) }
    else if is_name(nm, 90, 68, 82) { Some(AMsg { zdr: g, ..m }) }
    else if is_name(nm, 80, 72, 73) { Some(AMsg { phi: g, ..m }) }
    else if is_name(nm, 82, 72, 79) { Some(AMsg { rho: g, ..m }) }
    else if is_name(nm, 67, 70, 80) { Some(AMsg { cfp: g, ..m }) }
    else { None }
}
proof fn lemma_ab_generic(w: Seq<u8>, at: int, m: AMsg)
    requires 0 <= at, at + 4 <= w.len(), !fixed_name(name_at(w, at))
    ensures apply_block(w, at, m) == (
        if at + 28 > w.len() { None } else if at + 28 + gen_len(w, at) > w.len() { None } else {
            let g = Some(AGen { header: GenericDataBlockHeader::parse(sub(w, at, 28)), data: sub(w, at + 28, gen_len(w, at)) });
            match gen_put(name_at(w, at), m, g) { Some(m2) => Some((m2, at + 28 + gen_len(w, at))), None => None }
        })
{ reveal(apply_block); }
