mod bincode { #[verifier::external_body] pub struct Error { _p: () } }
pub uninterp spec fn f32_from_bits(x: u32) -> f32;
pub uninterp spec fn bytes_at<const N: usize>(b: Seq<u8>, o: int) -> [u8; N];
pub uninterp spec fn u16s_at<const N: usize>(b: Seq<u8>, o: int) -> [u16; N];
// byte arrays taken from the wire hold exactly those bytes
pub broadcast axiom fn axiom_bytes_at<const N: usize>(b: Seq<u8>, o: int)
    requires 0 <= o, o + N <= b.len()
    ensures (#[trigger] bytes_at::<N>(b, o))@ == b.subrange(o, o + N as int);
