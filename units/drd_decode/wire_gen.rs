// generated from tools/wire.py (DrdHeader, ICD Table XVII-A)
impl Wire for Header {
    closed spec fn wire_len() -> nat { 32 }
    closed spec fn parse(b: Seq<u8>) -> Self {
        Header {
            radar_identifier: bytes_at::<4>(b, 0),
            time: be32u(b, 4),
            date: be16(b, 8),
            azimuth_number: be16(b, 10),
            azimuth_angle: f32_from_bits(be32u(b, 12)),
            compression_indicator: b[16],
            spare: b[17],
            radial_length: be16(b, 18),
            azimuth_resolution_spacing: b[20],
            radial_status: b[21],
            elevation_number: b[22],
            cut_sector_number: b[23],
            elevation_angle: f32_from_bits(be32u(b, 24)),
            radial_spot_blanking_status: b[28],
            azimuth_indexing_mode: b[29],
            data_block_count: be16(b, 30),
        }
    }
}

// generated from tools/wire.py (DataBlockId, ICD Table XVII-B/E (type+name))
impl Wire for DataBlockId {
    closed spec fn wire_len() -> nat { 4 }
    closed spec fn parse(b: Seq<u8>) -> Self {
        DataBlockId {
            data_block_type: b[0],
            data_name: bytes_at::<3>(b, 1),
        }
    }
}

// generated from tools/wire.py (VolumeDataBlock, ICD Table XVII-E (Build 19+))
impl Wire for VolumeDataBlock {
    closed spec fn wire_len() -> nat { 52 }
    closed spec fn parse(b: Seq<u8>) -> Self {
        VolumeDataBlock {
            data_block_id: DataBlockId { data_block_type: b[0], data_name: bytes_at::<3>(b, 1) },
            lrtup: be16(b, 4),
            major_version_number: b[6],
            minor_version_number: b[7],
            latitude: f32_from_bits(be32u(b, 8)),
            longitude: f32_from_bits(be32u(b, 12)),
            site_height: be16(b, 16) as i16,
            feedhorn_height: be16(b, 18),
            calibration_constant: f32_from_bits(be32u(b, 20)),
            horizontal_shv_tx_power: f32_from_bits(be32u(b, 24)),
            vertical_shv_tx_power: f32_from_bits(be32u(b, 28)),
            system_differential_reflectivity: f32_from_bits(be32u(b, 32)),
            initial_system_differential_phase: f32_from_bits(be32u(b, 36)),
            volume_coverage_pattern_number: be16(b, 40),
            processing_status: be16(b, 42),
            zdr_bias_estimate_weighted_mean: be16(b, 44),
            spare: bytes_at::<6>(b, 46),
        }
    }
}

// generated from tools/wire.py (ElevationDataBlock, ICD Table XVII-F)
impl Wire for ElevationDataBlock {
    closed spec fn wire_len() -> nat { 12 }
    closed spec fn parse(b: Seq<u8>) -> Self {
        ElevationDataBlock {
            data_block_id: DataBlockId { data_block_type: b[0], data_name: bytes_at::<3>(b, 1) },
            lrtup: be16(b, 4),
            atmos: be16(b, 6) as i16,
            calibration_constant: f32_from_bits(be32u(b, 8)),
        }
    }
}

// generated from tools/wire.py (RadialDataBlock, ICD Table XVII-H)
impl Wire for RadialDataBlock {
    closed spec fn wire_len() -> nat { 28 }
    closed spec fn parse(b: Seq<u8>) -> Self {
        RadialDataBlock {
            data_block_id: DataBlockId { data_block_type: b[0], data_name: bytes_at::<3>(b, 1) },
            lrtup: be16(b, 4),
            unambiguous_range: be16(b, 6),
            horizontal_channel_noise_level: f32_from_bits(be32u(b, 8)),
            vertical_channel_noise_level: f32_from_bits(be32u(b, 12)),
            nyquist_velocity: be16(b, 16),
            radial_flags: be16(b, 18),
            horizontal_channel_calibration_constant: f32_from_bits(be32u(b, 20)),
            vertical_channel_calibration_constant: f32_from_bits(be32u(b, 24)),
        }
    }
}

// generated from tools/wire.py (GenericDataBlockHeader, ICD Table XVII-B)
impl Wire for GenericDataBlockHeader {
    closed spec fn wire_len() -> nat { 28 }
    closed spec fn parse(b: Seq<u8>) -> Self {
        GenericDataBlockHeader {
            data_block_id: DataBlockId { data_block_type: b[0], data_name: bytes_at::<3>(b, 1) },
            reserved: be32u(b, 4),
            number_of_data_moment_gates: be16(b, 8),
            data_moment_range: be16(b, 10),
            data_moment_range_sample_interval: be16(b, 12),
            tover: be16(b, 14),
            snr_threshold: be16(b, 16),
            control_flags: b[18],
            data_word_size: b[19],
            scale: f32_from_bits(be32u(b, 20)),
            offset: f32_from_bits(be32u(b, 24)),
        }
    }
}
