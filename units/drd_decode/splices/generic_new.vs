@sig ret=r
    // C02: the gate buffer holds gates x word-bytes bytes (word-bytes = word size / 8)
    ensures r.header == header,
            r.encoded_data@.len() == header.number_of_data_moment_gates as int * (header.data_word_size as int / 8),
@entry
    proof {
        assert(header.number_of_data_moment_gates as int * (header.data_word_size as int / 8) <= 65535 * 31) by (nonlinear_arith)
            requires 0 <= header.number_of_data_moment_gates as int <= 65535, 0 <= header.data_word_size as int / 8 <= 31;
    }
