@sig ret=r
    ensures abs(r) == amsg_new(header)
