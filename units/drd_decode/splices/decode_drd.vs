@sig ret=res
    requires
        0 <= rpos(reader) < 0x7fff_ffff_0000_0000,   // `start_position + pointer as u64` is computed in u64
    ensures
        rwhole(final(reader)) == rwhole(old(reader)),
        // C02: the decoded message is exactly what the bytes say (drd_spec): header and every block parsed from its own
        // bytes at its pointer, each under the product its name designates, gate bytes intact, everything else absent,
        // for every subset, order and pointer layout; C03: the reader ends after the last block in pointer order;
        // C04: total (value or error) on every input
        match res {
            Ok(m) => drd_spec(rwhole(old(reader)), rpos(old(reader))) matches Some(p) && abs(m) == p.0 && rpos(final(reader)) == p.1,
            Err(_) => drd_spec(rwhole(old(reader)), rpos(old(reader))) is None,
        },
@entry
    let ghost w = rwhole(reader);
    let ghost s = rpos(reader);
    broadcast use axiom_lossy3_names, axiom_bytes_at;
    proof { reveal_strlit("VOL"); reveal_strlit("ELV"); reveal_strlit("RAD"); reveal_strlit("REF"); reveal_strlit("VEL");
            reveal_strlit("SW "); reveal_strlit("ZDR"); reveal_strlit("PHI"); reveal_strlit("RHO"); reveal_strlit("CFP"); }
@before "for pointer in pointers"
    let ghost hdr = message.header;
    let ghost cnt = hdr.data_block_count as int;
    let ghost ptrs = pointers@;
    proof {
        assert(w.skip(s).take(32) =~= sub(w, s, 32));
        assert(hdr == Header::parse(sub(w, s, 32)));
        assert(abs(message) == amsg_new(hdr));
        assert(rpos(reader) == s + 32 + 4 * cnt);
        assert(pointers_raw@ == w.skip(s + 32).take(4 * cnt));
        assert(ptrs.len() == cnt);
        assert forall|i: int| 0 <= i < cnt implies ptrs[i] == ptrs_of(w, s + 32, cnt)[i] by {
            assert(ptrs[i] == be32u(pointers_raw@, 4 * i));
        }
        assert(ptrs =~= ptrs_of(w, s + 32, cnt));
    }
@loop 0 header iter=it
    invariant
        w == rwhole(reader), w == rwhole(old(reader)), s == rpos(old(reader)), 0 <= s < 0x7fff_ffff_0000_0000, s == start_position,
        it.snapshot@.remaining() == ptrs,
        0 <= rpos(reader),
        drd_spec(w, s) == fold_blocks(w, s, ptrs, it.history@.len() as int, abs(message), rpos(reader)),
@loop 0 body-entry
    let ghost i = it.history@.len() as int;
    let ghost m0 = abs(message);
    let ghost at = s + pointer as int;
    broadcast use axiom_lossy3_names, axiom_bytes_at;
    proof { reveal_strlit("VOL"); reveal_strlit("ELV"); reveal_strlit("RAD"); reveal_strlit("REF"); reveal_strlit("VEL");
            reveal_strlit("SW "); reveal_strlit("ZDR"); reveal_strlit("PHI"); reveal_strlit("RHO"); reveal_strlit("CFP"); }
    proof { lemma_fold_unfold(w, s, ptrs, i, m0, rpos(reader)); assert(ptrs[i] == pointer); }
@after "reader.seek(SeekFrom::Start(start_position + pointer as u64))?"
    proof { assert(rpos(reader) == at); lemma_ab_short(w, at, m0); }
@before "match data_block_id.data_block_name().as_str()" nth=0
    proof {
        assert(rpos(reader) == at && at + 4 <= w.len());
        assert(w.skip(at).take(4) =~= sub(w, at, 4));
        assert(data_block_id == DataBlockId::parse(sub(w, at, 4)));
        let nm = name_at(w, at);
        assert(data_block_id.data_name@ == nm);
        if at + 12 <= w.len() { assert(w.skip(at).take(12) =~= sub(w, at, 12)); }
        if at + 28 <= w.len() { assert(w.skip(at).take(28) =~= sub(w, at, 28)); }
        if at + 52 <= w.len() { assert(w.skip(at).take(52) =~= sub(w, at, 52)); }
        if is_name(nm, 86, 79, 76) { lemma_ab_vol(w, at, m0); }
        else if is_name(nm, 69, 76, 86) { lemma_ab_elv(w, at, m0); }
        else if is_name(nm, 82, 65, 68) { lemma_ab_rad(w, at, m0); }
        else { lemma_ab_generic(w, at, m0); }
    }
@after "let mut generic_data_block = GenericDataBlock::new(generic_header)"
    proof {
        assert(generic_header == GenericDataBlockHeader::parse(sub(w, at, 28)));
        assert(generic_data_block.encoded_data@.len() == gen_len(w, at));
        assert(rpos(reader) == at + 28);
        if at + 28 + gen_len(w, at) <= w.len() {
            assert(w.skip(at + 28).take(gen_len(w, at)) =~= sub(w, at + 28, gen_len(w, at)));
        }
    }
@before "match data_block_id.data_block_name().as_str()" nth=1
    proof {
        assert(generic_data_block.encoded_data@ == sub(w, at + 28, gen_len(w, at)));
        assert(rpos(reader) == at + 28 + gen_len(w, at));
    }
@before "let generic_header: GenericDataBlockHeader = deserialize(reader)?"
    proof {
        let nm = name_at(w, at);
        assert(data_block_id.data_name@ == nm);
        assert(!fixed_name(nm));
    }
@before "Ok(message)"
    proof { lemma_fold_unfold(w, s, ptrs, ptrs.len() as int, abs(message), rpos(reader)); }
