use std::collections::{HashMap, HashSet};
use vstd::std_specs::cmp::{PartialEqSpecImpl, PartialOrdSpecImpl};
use vstd::std_specs::hash::*;

// ---- opaque stand-ins for message bodies and for the two info extractors (not part of C14's statement beyond
//      "the group carries the info of its own message") -------------------------------------------------------
mod rda_status_data { #[verifier::external_body] pub struct Message { _p: () } }
mod volume_coverage_pattern { #[verifier::external_body] pub struct Message { _p: () } }
mod clutter_filter_map { #[verifier::external_body] pub struct Message { _p: () } }
#[verifier::external_body] pub struct RDAStatusInfo { _p: () }
#[verifier::external_body] pub struct VCPInfo { _p: () }
pub uninterp spec fn rda_info(m: rda_status_data::Message) -> RDAStatusInfo;
pub uninterp spec fn vcp_info(m: volume_coverage_pattern::Message) -> VCPInfo;
mod rda {
    use super::*;
    #[verifier::external_body]
    pub fn extract_rda_status_info(message: &rda_status_data::Message) -> (r: RDAStatusInfo)
        ensures r == rda_info(*message) { unimplemented!() }
}
mod vcp {
    use super::*;
    #[verifier::external_body]
    pub fn extract_vcp_info(message: &volume_coverage_pattern::Message) -> (r: VCPInfo)
        ensures r == vcp_info(*message) { unimplemented!() }
}

// ---- ASSUMED chrono contract: an instant carries a millisecond view; comparison compares it -----------------
pub mod chrono {
    use super::*;
    #[verifier::external_body] #[verifier::reject_recursive_types(Tz)]
    pub struct DateTime<Tz> { _p: core::marker::PhantomData<Tz> }
    impl<Tz> Clone for DateTime<Tz> { #[verifier::external_body] fn clone(&self) -> Self { unimplemented!() } }
    impl<Tz> Copy for DateTime<Tz> {}
    pub struct Utc;
    pub uninterp spec fn tms<Tz>(t: DateTime<Tz>) -> i64;
    impl<Tz> PartialEq for DateTime<Tz> { #[verifier::external_body] fn eq(&self, o: &DateTime<Tz>) -> bool { unimplemented!() } }
    impl<Tz> PartialOrd for DateTime<Tz> {
        #[verifier::external_body] fn partial_cmp(&self, o: &DateTime<Tz>) -> Option<core::cmp::Ordering> { unimplemented!() }
    }
    impl<Tz> PartialEqSpecImpl for DateTime<Tz> {
        open spec fn obeys_eq_spec() -> bool { true }
        open spec fn eq_spec(&self, o: &DateTime<Tz>) -> bool { tms(*self) == tms(*o) }
    }
    impl<Tz> PartialOrdSpecImpl for DateTime<Tz> {
        open spec fn obeys_partial_cmp_spec() -> bool { true }
        open spec fn partial_cmp_spec(&self, o: &DateTime<Tz>) -> Option<core::cmp::Ordering> {
            if tms(*self) < tms(*o) { Some(core::cmp::Ordering::Less) }
            else if tms(*self) == tms(*o) { Some(core::cmp::Ordering::Equal) }
            else { Some(core::cmp::Ordering::Greater) }
        }
    }
    impl<Tz> DateTime<Tz> {
        #[verifier::external_body]
        pub fn timestamp_millis(&self) -> (r: i64) ensures r == tms(*self) { unimplemented!() }
    }
}
use chrono::{DateTime, Utc, tms};

pub uninterp spec fn hdr_time(h: MessageHeader) -> Option<DateTime<Utc>>;
impl MessageHeader {
    // contract of MessageHeader::date_time (what the time is: C08/C10 Kani harnesses on the real accessor)
    #[verifier::external_body]
    fn date_time(&self) -> (r: Option<DateTime<Utc>>) ensures r == hdr_time(*self) { unimplemented!() }
}

// ---- ASSUMED std contracts: String keys looked up by &str ---------------------------------------------------
pub uninterp spec fn mk_string(s: Seq<char>) -> String;
pub broadcast axiom fn axiom_mk_string_view(s: Seq<char>)
    ensures (#[trigger] mk_string(s))@ == s;
pub broadcast axiom fn axiom_string_ext(x: String)
    ensures mk_string(#[trigger] x@) == x;
pub broadcast axiom fn axiom_string_key_model()
    ensures #[trigger] obeys_key_model::<String>();
pub broadcast axiom fn axiom_str_borrow_contains<V>(m: Map<String, V>, k: &str)
    ensures #[trigger] contains_borrowed_key::<String, V, str>(m, k) == m.contains_key(mk_string(k@));
pub broadcast axiom fn axiom_str_borrow_maps<V>(m: Map<String, V>, k: &str, v: V)
    ensures #[trigger] maps_borrowed_key_to_value::<String, V, str>(m, k, v) == (m.contains_key(mk_string(k@)) && m[mk_string(k@)] == v);
// a fieldless enum with derived Hash/Eq is a lawful hash key
pub broadcast axiom fn axiom_vcp_key_model()
    ensures #[trigger] obeys_key_model::<digital_radar_data::VolumeCoveragePattern>();
pub broadcast group group_summarize_axioms {
    axiom_string_key_model, axiom_str_borrow_contains, axiom_str_borrow_maps, axiom_vcp_key_model,
}
pub broadcast group group_string_axioms { axiom_mk_string_view, axiom_string_ext }

// `groups.iter().rev().any(|g| g is a radial group of elevation e)` (R-shim: iterator adaptors are outside Verus)
#[verifier::external_body]
fn shim_any_prior_drd(groups: &Vec<MessageGroupSummary>, e: u8) -> (r: bool)
    ensures r == any_prior(groups@, groups@.len() as int, Some(e))
{ unimplemented!() }

// ICD Table I message-type codes (same table as unit `framing`, where the accessor is proved against it)
#[verifier::opaque]
spec fn spec_type(c: u8) -> MessageType {
    if c == 1 { MessageType::RDADigitalRadarData }
    else if c == 2 { MessageType::RDAStatusData }
    else if c == 3 { MessageType::RDAPerformanceMaintenanceData }
    else if c == 4 { MessageType::RDAConsoleMessage }
    else if c == 5 { MessageType::RDAVolumeCoveragePattern }
    else if c == 6 { MessageType::RDAControlCommands }
    else if c == 7 { MessageType::RPGVolumeCoveragePattern }
    else if c == 8 { MessageType::RPGClutterCensorZones }
    else if c == 9 { MessageType::RPGRequestForData }
    else if c == 10 { MessageType::RPGConsoleMessage }
    else if c == 11 { MessageType::RDALoopBackTest }
    else if c == 12 { MessageType::RPGLoopBackTest }
    else if c == 13 { MessageType::RDAClutterFilterBypassMap }
    else if c == 14 { MessageType::Spare1 }
    else if c == 15 { MessageType::RDAClutterFilterMap }
    else if c == 16 { MessageType::ReservedFAARMSOnly1 }
    else if c == 17 { MessageType::ReservedFAARMSOnly2 }
    else if c == 18 { MessageType::RDAAdaptationData }
    else if c == 20 { MessageType::Reserved1 }
    else if c == 21 { MessageType::Reserved2 }
    else if c == 22 { MessageType::Reserved3 }
    else if c == 23 { MessageType::Reserved4 }
    else if c == 24 { MessageType::ReservedFAARMSOnly3 }
    else if c == 25 { MessageType::ReservedFAARMSOnly4 }
    else if c == 26 { MessageType::ReservedFAARMSOnly5 }
    else if c == 29 { MessageType::Reserved5 }
    else if c == 31 { MessageType::RDADigitalRadarDataGenericFormat }
    else if c == 32 { MessageType::RDAPRFData }
    else if c == 33 { MessageType::RDALogData }
    else { MessageType::Unknown(c) }
}

// the six patterns the crate defines (digital_radar_data::VolumeCoveragePattern)
spec fn known_vcp(n: u16) -> bool { n == 12 || n == 31 || n == 35 || n == 112 || n == 212 || n == 215 }
spec fn vcp_pat(n: u16) -> digital_radar_data::VolumeCoveragePattern {
    if n == 12 { digital_radar_data::VolumeCoveragePattern::VCP12 }
    else if n == 31 { digital_radar_data::VolumeCoveragePattern::VCP31 }
    else if n == 35 { digital_radar_data::VolumeCoveragePattern::VCP35 }
    else if n == 112 { digital_radar_data::VolumeCoveragePattern::VCP112 }
    else if n == 212 { digital_radar_data::VolumeCoveragePattern::VCP212 }
    else { digital_radar_data::VolumeCoveragePattern::VCP215 }
}

// ================= the property's vocabulary (C14) ==========================================================
pub enum Kind { Drd, Status, Vcp, Other }
spec fn kind(m: Message) -> Kind {
    match m.contents {
        MessageContents::DigitalRadarData(_) => Kind::Drd,
        MessageContents::RDAStatusData(_) => Kind::Status,
        MessageContents::VolumeCoveragePattern(_) => Kind::Vcp,
        _ => Kind::Other,
    }
}
spec fn drd(m: Message) -> digital_radar_data::Message { *m.contents->DigitalRadarData_0 }
spec fn t31() -> MessageType { MessageType::RDADigitalRadarDataGenericFormat }
// the message type a message is grouped under, and (radial data only) its elevation number
spec fn mtype(m: Message) -> MessageType {
    match kind(m) {
        Kind::Drd => t31(),
        Kind::Status => MessageType::RDAStatusData,
        Kind::Vcp => MessageType::RDAVolumeCoveragePattern,
        Kind::Other => spec_type(m.header.message_type),
    }
}
spec fn melev(m: Message) -> Option<u8> { if kind(m) is Drd { Some(drd(m).header.elevation_number) } else { None } }
spec fn mtime(m: Message) -> Option<DateTime<Utc>> { hdr_time(m.header) }
spec fn is_solo(t: MessageType) -> bool { t == MessageType::RDAStatusData || t == MessageType::RDAVolumeCoveragePattern }

// "decoded messages whose coded fields are within their documented domains": the contents variant agrees with the
// header's type code (what decode_message_contents produces: unit `framing`), and a volume block names one of the
// six patterns the crate defines (its accessor panics on any other number)
spec fn in_domain(m: Message) -> bool {
    &&& kind(m) is Other ==> mtype(m) != t31() && !is_solo(mtype(m))
    &&& kind(m) is Drd ==> (drd(m).volume_data_block matches Some(v) ==> known_vcp(v.volume_coverage_pattern_number))
}

// ---- data-type counts ---------------------------------------------------------------------------------------
spec fn blk_name(b: int) -> Seq<char> {
    if b == 0 { "Reflectivity"@ } else if b == 1 { "Velocity"@ } else if b == 2 { "Spectrum Width"@ }
    else if b == 3 { "Differential Reflectivity"@ } else if b == 4 { "Differential Phase"@ }
    else if b == 5 { "Correlation Coefficient"@ } else { "Specific Differential Phase"@ }
}
spec fn has_blk(d: digital_radar_data::Message, b: int) -> bool {
    if b == 0 { d.reflectivity_data_block is Some } else if b == 1 { d.velocity_data_block is Some }
    else if b == 2 { d.spectrum_width_data_block is Some } else if b == 3 { d.differential_reflectivity_data_block is Some }
    else if b == 4 { d.differential_phase_data_block is Some } else if b == 5 { d.correlation_coefficient_data_block is Some }
    else { d.specific_diff_phase_data_block is Some }
}
// number of messages in [s, e1) that carry block b
spec fn carriers(ms: Seq<Message>, s: int, e1: int, b: int) -> nat
    decreases e1 - s
{
    if e1 <= s { 0 } else { carriers(ms, s, e1 - 1, b) + if has_blk(drd(ms[e1 - 1]), b) { 1nat } else { 0nat } }
}
spec fn dtc(m: Map<String, usize>, name: Seq<char>) -> nat {
    if m.contains_key(mk_string(name)) { m[mk_string(name)] as nat } else { 0 }
}
spec fn is_blk_name(n: Seq<char>) -> bool { exists|b: int| 0 <= b < 7 && n == #[trigger] blk_name(b) }
// the map holds, for each data type, the number of messages of [s, e1) carrying it (absent = 0) and nothing else;
// `done` types already count message e1 as well (used only mid-iteration, done == 0 otherwise)
#[verifier::opaque]
spec fn dt_mid(ms: Seq<Message>, s: int, e1: int, m: Map<String, usize>, done: int) -> bool {
    &&& forall|b: int| 0 <= b < 7 ==> dtc(m, #[trigger] blk_name(b)) == carriers(ms, s, if b < done { e1 + 1 } else { e1 }, b)
    &&& forall|k: String| m.contains_key(k) ==> is_blk_name(#[trigger] k@)
}
spec fn dt_ok(ms: Seq<Message>, s: int, e1: int, m: Map<String, usize>) -> bool { dt_mid(ms, s, e1, m, 0) }

// ---- one group against its span of messages -----------------------------------------------------------------
spec fn member_ok(m: Message, g: MessageGroupSummary) -> bool {
    mtype(m) == g.message_type && melev(m) == g.elevation_number
}
// everything except the data-type counts
#[verifier::opaque]
spec fn grp_base(ms: Seq<Message>, g: MessageGroupSummary) -> bool {
    let s = g.start_message_index as int;
    let e = g.end_message_index as int;
    &&& 0 <= s <= e < ms.len()
    &&& g.message_count == e - s + 1
    &&& forall|i: int| s <= i <= e ==> member_ok(#[trigger] ms[i], g)
    &&& (is_solo(g.message_type) ==> s == e)
    &&& g.start_time == mtime(ms[s]) && g.end_time == mtime(ms[e])
    &&& match kind(ms[s]) {
        Kind::Drd => {
            &&& g.elevation_angle == Some(drd(ms[s]).header.elevation_angle)
            &&& g.start_azimuth == Some(drd(ms[s]).header.azimuth_angle)
            &&& g.end_azimuth == Some(drd(ms[e]).header.azimuth_angle)
            &&& g.rda_status_info is None && g.vcp_info is None && g.data_types is Some
        },
        Kind::Status => {
            &&& g.elevation_angle is None && g.start_azimuth is None && g.end_azimuth is None && g.data_types is None
            &&& g.rda_status_info == Some(rda_info(*ms[s].contents->RDAStatusData_0)) && g.vcp_info is None
        },
        Kind::Vcp => {
            &&& g.elevation_angle is None && g.start_azimuth is None && g.end_azimuth is None && g.data_types is None
            &&& g.vcp_info == Some(vcp_info(*ms[s].contents->VolumeCoveragePattern_0)) && g.rda_status_info is None
        },
        Kind::Other => {
            &&& g.elevation_angle is None && g.start_azimuth is None && g.end_azimuth is None && g.data_types is None
            &&& g.rda_status_info is None && g.vcp_info is None
        },
    }
}
spec fn grp_ok(ms: Seq<Message>, g: MessageGroupSummary) -> bool {
    &&& grp_base(ms, g)
    &&& g.data_types matches Some(dt) ==> dt_ok(ms, g.start_message_index as int, g.end_message_index as int + 1, dt@)
}

// ---- the sequence of groups ------------------------------------------------------------------------------------
spec fn mergeable(a: MessageGroupSummary, b: MessageGroupSummary) -> bool {
    a.message_type == b.message_type && a.elevation_number == b.elevation_number && !is_solo(a.message_type)
}
spec fn link_at(ag: Seq<MessageGroupSummary>, k: int) -> bool {
    ag[k + 1].start_message_index == ag[k].end_message_index + 1 && !mergeable(ag[k], ag[k + 1])
}
spec fn prior_match(g: MessageGroupSummary, e: Option<u8>) -> bool { g.message_type == t31() && g.elevation_number == e }
spec fn any_prior(ag: Seq<MessageGroupSummary>, k: int, e: Option<u8>) -> bool {
    exists|j: int| 0 <= j < k && j < ag.len() && prior_match(#[trigger] ag[j], e)
}
spec fn cont_at(ag: Seq<MessageGroupSummary>, k: int) -> bool {
    ag[k].is_continued == (ag[k].message_type == t31() && any_prior(ag, k, ag[k].elevation_number))
}
// C14, group clauses: the groups tile 0..=last in order without gap or overlap; each is a run of one message type
// (and elevation) with count == span, first/last azimuths and times, data-type counts; status and VCP messages
// stand alone; adjacent groups could not have been merged; `is_continued` iff an earlier radial group has the
// same elevation number
#[verifier::opaque]
spec fn seq_ok(ms: Seq<Message>, ag: Seq<MessageGroupSummary>) -> bool {
    &&& forall|k: int| 0 <= k < ag.len() ==> grp_ok(ms, #[trigger] ag[k])
    &&& forall|k: int| 0 <= k < ag.len() - 1 ==> #[trigger] link_at(ag, k)
    &&& forall|k: int| 0 <= k < ag.len() ==> #[trigger] cont_at(ag, k)
    &&& ag.len() > 0 ==> ag[0].start_message_index == 0
}
spec fn all_groups(gs: Seq<MessageGroupSummary>, cur: Option<MessageGroupSummary>) -> Seq<MessageGroupSummary> {
    match cur { Some(c) => gs.push(c), None => gs }
}

// ---- collection-time range and VCP set -----------------------------------------------------------------------------
spec fn timed_at(ms: Seq<Message>, j: int) -> bool { (kind(ms[j]) is Drd || kind(ms[j]) is Status) && mtime(ms[j]) is Some }
spec fn time_at(ms: Seq<Message>, j: int) -> DateTime<Utc> { mtime(ms[j])->Some_0 }
// latest == the greatest time among the timestamped radial and status messages of ms[0..i)
#[verifier::opaque]
spec fn latest_ok(ms: Seq<Message>, i: int, l: Option<DateTime<Utc>>) -> bool {
    match l {
        None => forall|j: int| 0 <= j < i ==> !#[trigger] timed_at(ms, j),
        Some(t) => {
            &&& exists|j: int| 0 <= j < i && #[trigger] timed_at(ms, j) && time_at(ms, j) == t
            &&& forall|j: int| 0 <= j < i && #[trigger] timed_at(ms, j) ==> tms(time_at(ms, j)) <= tms(t)
        },
    }
}
// earliest == the least among those after the Unix epoch (the code ignores zero/negative timestamps: every
// documented date/time except the single instant 1970-01-01T00:00:00.000 is after it)
spec fn timed_pos(ms: Seq<Message>, j: int) -> bool { timed_at(ms, j) && tms(time_at(ms, j)) > 0 }
#[verifier::opaque]
spec fn earliest_ok(ms: Seq<Message>, i: int, l: Option<DateTime<Utc>>) -> bool {
    match l {
        None => forall|j: int| 0 <= j < i ==> !#[trigger] timed_pos(ms, j),
        Some(t) => {
            &&& exists|j: int| 0 <= j < i && #[trigger] timed_pos(ms, j) && time_at(ms, j) == t
            &&& forall|j: int| 0 <= j < i && #[trigger] timed_pos(ms, j) ==> tms(t) <= tms(time_at(ms, j))
        },
    }
}
spec fn names_at(ms: Seq<Message>, j: int, p: digital_radar_data::VolumeCoveragePattern) -> bool {
    kind(ms[j]) is Drd && (drd(ms[j]).volume_data_block matches Some(v) && vcp_pat(v.volume_coverage_pattern_number) == p)
}
// the VCP set is exactly the set of patterns named by the volume blocks of ms[0..i)
#[verifier::opaque]
spec fn vcps_ok(ms: Seq<Message>, i: int, s: Set<digital_radar_data::VolumeCoveragePattern>) -> bool {
    forall|p: digital_radar_data::VolumeCoveragePattern| s.contains(p) <==> (exists|j: int| 0 <= j < i && #[trigger] names_at(ms, j, p))
}

// ---- lemmas --------------------------------------------------------------------------------------------------------
proof fn lemma_carriers_bound(ms: Seq<Message>, s: int, e1: int, b: int)
    requires s <= e1
    ensures carriers(ms, s, e1, b) <= e1 - s
    decreases e1 - s
{
    if e1 > s { lemma_carriers_bound(ms, s, e1 - 1, b); }
}

// appending a group
proof fn lemma_seq_push(ms: Seq<Message>, ag: Seq<MessageGroupSummary>, c: MessageGroupSummary)
    requires
        seq_ok(ms, ag),
        grp_ok(ms, c),
        ag.len() == 0 ==> c.start_message_index == 0,
        ag.len() > 0 ==> c.start_message_index == ag.last().end_message_index + 1 && !mergeable(ag.last(), c),
        c.is_continued == (c.message_type == t31() && any_prior(ag, ag.len() as int, c.elevation_number)),
    ensures seq_ok(ms, ag.push(c))
{
    reveal(seq_ok);
    let n = ag.push(c);
    assert forall|k: int| 0 <= k < n.len() implies grp_ok(ms, #[trigger] n[k]) by {
        if k < ag.len() { assert(n[k] == ag[k]); }
    }
    assert forall|k: int| 0 <= k < n.len() - 1 implies #[trigger] link_at(n, k) by {
        if k < ag.len() - 1 { assert(link_at(ag, k)); assert(n[k] == ag[k] && n[k + 1] == ag[k + 1]); }
    }
    assert forall|k: int| 0 <= k < n.len() implies #[trigger] cont_at(n, k) by {
        lemma_any_prior_prefix(ag, n, k, n[k].elevation_number);
        if k < ag.len() { assert(cont_at(ag, k)); assert(n[k] == ag[k]); }
    }
}
// any_prior looks only at the first k groups
proof fn lemma_any_prior_prefix(a: Seq<MessageGroupSummary>, b: Seq<MessageGroupSummary>, k: int, e: Option<u8>)
    requires 0 <= k <= a.len(), k <= b.len(), forall|j: int| 0 <= j < k ==> a[j] == b[j],
    ensures any_prior(a, k, e) == any_prior(b, k, e)
{
    if any_prior(a, k, e) {
        let j = choose|j: int| 0 <= j < k && j < a.len() && prior_match(#[trigger] a[j], e);
        assert(prior_match(b[j], e));
    }
    if any_prior(b, k, e) {
        let j = choose|j: int| 0 <= j < k && j < b.len() && prior_match(#[trigger] b[j], e);
        assert(prior_match(a[j], e));
    }
}
// replacing the last group by one with the same start, key and flag
proof fn lemma_seq_replace_last(ms: Seq<Message>, ag: Seq<MessageGroupSummary>, c: MessageGroupSummary)
    requires
        seq_ok(ms, ag), ag.len() > 0, grp_ok(ms, c),
        c.start_message_index == ag.last().start_message_index,
        c.message_type == ag.last().message_type,
        c.elevation_number == ag.last().elevation_number,
        c.is_continued == ag.last().is_continued,
    ensures seq_ok(ms, ag.drop_last().push(c))
{
    reveal(seq_ok);
    let n = ag.drop_last().push(c);
    let l = ag.len() - 1;
    assert forall|k: int| 0 <= k < n.len() implies grp_ok(ms, #[trigger] n[k]) by {
        if k < l { assert(n[k] == ag[k]); }
    }
    assert forall|k: int| 0 <= k < n.len() - 1 implies #[trigger] link_at(n, k) by {
        assert(link_at(ag, k));
        assert(n[k] == ag[k]);
    }
    assert forall|k: int| 0 <= k < n.len() implies #[trigger] cont_at(n, k) by {
        lemma_any_prior_prefix(ag, n, k, n[k].elevation_number);
        assert(cont_at(ag, k));
        if k < l { assert(n[k] == ag[k]); }
    }
}

// ---- step lemmas ---------------------------------------------------------------------------------------------------
proof fn lemma_times_step(ms: Seq<Message>, i: int, l0: Option<DateTime<Utc>>, e0: Option<DateTime<Utc>>,
                          l1: Option<DateTime<Utc>>, e1: Option<DateTime<Utc>>)
    requires
        0 <= i < ms.len(), latest_ok(ms, i, l0), earliest_ok(ms, i, e0),
        !timed_at(ms, i) ==> l1 == l0 && e1 == e0,
        timed_at(ms, i) ==> {
            let t = time_at(ms, i);
            &&& l1 == (if l0 is None || tms(l0->Some_0) < tms(t) { Some(t) } else { l0 })
            &&& e1 == (if (e0 is None || tms(e0->Some_0) > tms(t)) && tms(t) > 0 { Some(t) } else { e0 })
        },
    ensures latest_ok(ms, i + 1, l1), earliest_ok(ms, i + 1, e1),
{
    reveal(latest_ok); reveal(earliest_ok);
    if l0 is Some {
        let j = choose|j: int| 0 <= j < i && #[trigger] timed_at(ms, j) && time_at(ms, j) == l0->Some_0;
        assert(timed_at(ms, j));
    }
    if e0 is Some {
        let j = choose|j: int| 0 <= j < i && #[trigger] timed_pos(ms, j) && time_at(ms, j) == e0->Some_0;
        assert(timed_pos(ms, j));
    }
    if timed_at(ms, i) { assert(timed_at(ms, i)); }
    if timed_pos(ms, i) { assert(timed_pos(ms, i)); }
}
proof fn lemma_vcps_step(ms: Seq<Message>, i: int, s0: Set<digital_radar_data::VolumeCoveragePattern>,
                         s1: Set<digital_radar_data::VolumeCoveragePattern>)
    requires
        0 <= i < ms.len(), vcps_ok(ms, i, s0),
        s1 == (if kind(ms[i]) is Drd && drd(ms[i]).volume_data_block is Some {
            s0.insert(vcp_pat(drd(ms[i]).volume_data_block->Some_0.volume_coverage_pattern_number)) } else { s0 }),
    ensures vcps_ok(ms, i + 1, s1),
{
    reveal(vcps_ok);
    assert forall|p: digital_radar_data::VolumeCoveragePattern| s1.contains(p) <==> (exists|j: int| 0 <= j < i + 1 && #[trigger] names_at(ms, j, p)) by {
        if s1.contains(p) {
            if s0.contains(p) {
                let j = choose|j: int| 0 <= j < i && #[trigger] names_at(ms, j, p);
                assert(names_at(ms, j, p));
            } else {
                assert(names_at(ms, i, p));
            }
        }
        if exists|j: int| 0 <= j < i + 1 && #[trigger] names_at(ms, j, p) {
            let j = choose|j: int| 0 <= j < i + 1 && #[trigger] names_at(ms, j, p);
            if j < i { assert(names_at(ms, j, p)); assert(s0.contains(p)); }
        }
    }
}
proof fn lemma_names_distinct()
    ensures forall|a: int, b: int| 0 <= a < 7 && 0 <= b < 7 && a != b ==> #[trigger] blk_name(a) != #[trigger] blk_name(b)
{
    reveal_strlit("Reflectivity"); reveal_strlit("Velocity"); reveal_strlit("Spectrum Width");
    reveal_strlit("Differential Reflectivity"); reveal_strlit("Differential Phase");
    reveal_strlit("Correlation Coefficient"); reveal_strlit("Specific Differential Phase");
    assert(blk_name(0).len() == 12); assert(blk_name(1).len() == 8); assert(blk_name(2).len() == 14);
    assert(blk_name(3).len() == 25); assert(blk_name(4).len() == 18); assert(blk_name(5).len() == 23);
    assert(blk_name(6).len() == 27);
}
proof fn lemma_dt_start(ms: Seq<Message>, s: int, i: int, m: Map<String, usize>, fresh: bool)
    requires
        fresh ==> s == i && m == Map::<String, usize>::empty(),
        !fresh ==> dt_ok(ms, s, i, m),
    ensures dt_mid(ms, s, i, m, 0)
{
    reveal(dt_mid);
}
proof fn lemma_dt_count(ms: Seq<Message>, s: int, i: int, m: Map<String, usize>, b: int)
    requires 0 <= b < 7, s <= i, dt_mid(ms, s, i, m, b),
    ensures dtc(m, blk_name(b)) == carriers(ms, s, i, b), dtc(m, blk_name(b)) <= i - s,
{
    reveal(dt_mid);
    lemma_carriers_bound(ms, s, i, b);
}
proof fn lemma_dt_finish(ms: Seq<Message>, s: int, i: int, m: Map<String, usize>)
    requires dt_mid(ms, s, i, m, 7),
    ensures dt_ok(ms, s, i + 1, m),
{
    reveal(dt_mid);
}
// one `increment_count` step: data type b is counted for message i iff the message carries it
proof fn lemma_dt_inc(ms: Seq<Message>, s: int, i: int, m: Map<String, usize>, m1: Map<String, usize>, b: int)
    requires
        0 <= b < 7, s <= i, dt_mid(ms, s, i, m, b),
        has_blk(drd(ms[i]), b) ==> dtc(m, blk_name(b)) + 1 <= usize::MAX
            && exists|k: String| k@ == blk_name(b) && m1 == #[trigger] m.insert(k, (dtc(m, blk_name(b)) + 1) as usize),
        !has_blk(drd(ms[i]), b) ==> m1 == m,
    ensures dt_mid(ms, s, i, m1, b + 1)
{
    broadcast use group_string_axioms;
    if has_blk(drd(ms[i]), b) {
        let k = choose|k: String| k@ == blk_name(b) && m1 == #[trigger] m.insert(k, (dtc(m, blk_name(b)) + 1) as usize);
        assert(k == mk_string(blk_name(b)));
    }
    reveal(dt_mid);
    lemma_names_distinct();
    assert forall|a: int| 0 <= a < 7 implies dtc(m1, #[trigger] blk_name(a)) == carriers(ms, s, if a < b + 1 { i + 1 } else { i }, a) by {
        if a != b {
            assert(blk_name(a) != blk_name(b));
            assert(mk_string(blk_name(a))@ != mk_string(blk_name(b))@);
        }
    }
    assert forall|k: String| m1.contains_key(k) implies is_blk_name(#[trigger] k@) by {
        if !m.contains_key(k) { assert(k == mk_string(blk_name(b))); assert(k@ == blk_name(b)); }
    }
}

// a group that differs from a good one only in its data-type map
proof fn lemma_grp_base_frame(ms: Seq<Message>, a: MessageGroupSummary, b: MessageGroupSummary)
    requires
        grp_base(ms, a),
        b.message_type == a.message_type, b.start_time == a.start_time, b.end_time == a.end_time,
        b.message_count == a.message_count, b.elevation_number == a.elevation_number,
        b.elevation_angle == a.elevation_angle, b.start_azimuth == a.start_azimuth, b.end_azimuth == a.end_azimuth,
        b.rda_status_info == a.rda_status_info, b.vcp_info == a.vcp_info, b.is_continued == a.is_continued,
        b.start_message_index == a.start_message_index, b.end_message_index == a.end_message_index,
        (b.data_types is Some) == (a.data_types is Some),
    ensures grp_base(ms, b)
{
    reveal(grp_base);
    let s = a.start_message_index as int;
    let e = a.end_message_index as int;
    assert forall|i: int| s <= i <= e implies member_ok(#[trigger] ms[i], b) by { assert(member_ok(ms[i], a)); }
}

proof fn lemma_init(ms: Seq<Message>)
    ensures seq_ok(ms, Seq::<MessageGroupSummary>::empty()), latest_ok(ms, 0, None), earliest_ok(ms, 0, None),
        vcps_ok(ms, 0, Set::<digital_radar_data::VolumeCoveragePattern>::empty()),
{
    reveal(seq_ok); reveal(latest_ok); reveal(earliest_ok); reveal(vcps_ok);
}
proof fn lemma_seq_last(ms: Seq<Message>, ag: Seq<MessageGroupSummary>)
    requires seq_ok(ms, ag), ag.len() > 0, forall|j: int| 0 <= j < ms.len() ==> in_domain(#[trigger] ms[j]),
    ensures grp_ok(ms, ag.last()),
        ag.last().message_type == t31() ==> ag.last().data_types is Some && kind(ms[ag.last().start_message_index as int]) is Drd, member_ok(ms[ag.last().start_message_index as int], ag.last()),
        0 <= ag.last().start_message_index <= ag.last().end_message_index < ms.len(),
        ag.last().message_count == ag.last().end_message_index - ag.last().start_message_index + 1,
        is_solo(ag.last().message_type) ==> ag.last().start_message_index == ag.last().end_message_index,
{
    reveal(seq_ok); reveal(grp_base);
    assert(grp_ok(ms, ag[ag.len() - 1]));
}
