@sig ret=r
    // the crate knows six patterns and panics on any other number: the property's "documented domain"
    requires known_vcp(self.volume_coverage_pattern_number)
    ensures r == vcp_pat(self.volume_coverage_pattern_number)
