@sig ret=r
    ensures *r == self.header
