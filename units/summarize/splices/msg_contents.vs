@sig ret=r
    ensures *r == self.contents
