@sig ret=summary
    // C14 for every message list (no length bound): see seq_ok / latest_ok / earliest_ok / vcps_ok in the prelude
    requires
        forall|i: int| 0 <= i < messages@.len() ==> in_domain(#[trigger] messages@[i]),
    ensures
        seq_ok(messages@, summary.message_groups@),
        messages@.len() == 0 ==> summary.message_groups@.len() == 0,
        messages@.len() > 0 ==> summary.message_groups@.len() > 0
            && summary.message_groups@.last().end_message_index == messages@.len() - 1,
        latest_ok(messages@, messages@.len() as int, summary.latest_collection_time),
        earliest_ok(messages@, messages@.len() as int, summary.earliest_collection_time),
        vcps_ok(messages@, messages@.len() as int, summary.volume_coverage_patterns@),
@entry
    broadcast use group_summarize_axioms;
    let ghost ms = messages@;
@before "for (i, message) in messages.iter().enumerate()"
    proof {
        lemma_init(ms);
        assert(all_groups(summary.message_groups@, current_group) =~= Seq::<MessageGroupSummary>::empty());
    }
@loop 0 header iter=it
    invariant
        ms == messages@,
        it.snapshot@.start == 0 && it.snapshot@.end == messages.len(),
        forall|j: int| 0 <= j < ms.len() ==> in_domain(#[trigger] ms[j]),
        seq_ok(ms, all_groups(summary.message_groups@, current_group)),
        current_group is None ==> it.history@.len() == 0 && summary.message_groups@.len() == 0,
        it.history@.len() > 0 ==> current_group is Some,
        current_group matches Some(c) ==> c.end_message_index == it.history@.len() - 1,
        latest_ok(ms, it.history@.len() as int, summary.latest_collection_time),
        earliest_ok(ms, it.history@.len() as int, summary.earliest_collection_time),
        vcps_ok(ms, it.history@.len() as int, summary.volume_coverage_patterns@),
@loop 0 body-entry
    broadcast use group_summarize_axioms;
    assert(i == it.history@.len());
    let ghost gs0 = summary.message_groups@;
    let ghost cur0 = current_group;
    let ghost ag0 = all_groups(gs0, cur0);
    let ghost late0 = summary.latest_collection_time;
    let ghost early0 = summary.earliest_collection_time;
    let ghost vcps0 = summary.volume_coverage_patterns@;
    assert(in_domain(ms[i as int]));
    assert(*message == ms[i as int]);
    proof {
        if cur0 is Some {
            assert(ag0.last() == cur0->Some_0);
            lemma_seq_last(ms, ag0);
        }
    }
@before "let elevation_number = radar_data.header.elevation_number"
    proof {
        assert(kind(ms[i as int]) is Drd);
        lemma_times_step(ms, i as int, late0, early0, summary.latest_collection_time, summary.earliest_collection_time);
    }
@before "if let Some(group) = &mut current_group {" nth=1
    proof {
        let c = current_group->Some_0;
        assert(current_group is Some);
        assert(c.end_message_index == i);
        assert(grp_base(ms, c)) by { reveal(grp_base); }
        assert(c.data_types is Some);
        lemma_dt_start(ms, c.start_message_index as int, i as int, c.data_types->Some_0@, !can_continue);
    }
    let ghost s0 = current_group->Some_0.start_message_index as int;
    let ghost cmid = current_group->Some_0;
@open "if let Some(data_types) = group.data_types.as_mut() {"
    let ghost mut gm = data_types@;
    proof { lemma_dt_count(ms, s0, i as int, gm, 0); }
@before "if radar_data.velocity_data_block.is_some()"
    proof { lemma_dt_inc(ms, s0, i as int, gm, data_types@, 0); gm = data_types@; lemma_dt_count(ms, s0, i as int, gm, 1); }
@before "if radar_data.spectrum_width_data_block.is_some()"
    proof { lemma_dt_inc(ms, s0, i as int, gm, data_types@, 1); gm = data_types@; lemma_dt_count(ms, s0, i as int, gm, 2); }
@before "if radar_data.differential_reflectivity_data_block.is_some()"
    proof { lemma_dt_inc(ms, s0, i as int, gm, data_types@, 2); gm = data_types@; lemma_dt_count(ms, s0, i as int, gm, 3); }
@before "if radar_data.differential_phase_data_block.is_some()"
    proof { lemma_dt_inc(ms, s0, i as int, gm, data_types@, 3); gm = data_types@; lemma_dt_count(ms, s0, i as int, gm, 4); }
@before "if radar_data.correlation_coefficient_data_block.is_some()"
    proof { lemma_dt_inc(ms, s0, i as int, gm, data_types@, 4); gm = data_types@; lemma_dt_count(ms, s0, i as int, gm, 5); }
@before "if radar_data.specific_diff_phase_data_block.is_some()"
    proof { lemma_dt_inc(ms, s0, i as int, gm, data_types@, 5); gm = data_types@; lemma_dt_count(ms, s0, i as int, gm, 6); }
@close "if let Some(data_types) = group.data_types.as_mut() {"
    proof { lemma_dt_inc(ms, s0, i as int, gm, data_types@, 6); gm = data_types@; lemma_dt_finish(ms, s0, i as int, gm); }
@before "if let Some(volume_data) = &radar_data.volume_data_block"
    proof {
        let c1 = current_group->Some_0;
        lemma_grp_base_frame(ms, cmid, c1);
        assert(dt_ok(ms, s0, i as int + 1, c1.data_types->Some_0@));
        assert(grp_ok(ms, c1));
        if can_continue {
            lemma_seq_replace_last(ms, ag0, c1);
            assert(all_groups(summary.message_groups@, current_group) =~= ag0.drop_last().push(c1));
        } else {
            lemma_seq_push(ms, ag0, c1);
            assert(all_groups(summary.message_groups@, current_group) =~= ag0.push(c1));
        }
        assert(seq_ok(ms, all_groups(summary.message_groups@, current_group)));
    }
@close "MessageContents::DigitalRadarData(radar_data) => {"
    proof { lemma_vcps_step(ms, i as int, vcps0, summary.volume_coverage_patterns@); }
@before "if let Some(group) = current_group.take()" nth=1
    proof {
        assert(kind(ms[i as int]) is Status);
        lemma_times_step(ms, i as int, late0, early0, summary.latest_collection_time, summary.earliest_collection_time);
    }
@close "MessageContents::RDAStatusData(status_data) => {"
    proof {
        let c1 = current_group->Some_0;
        assert(grp_ok(ms, c1)) by { reveal(grp_base); }
        lemma_seq_push(ms, ag0, c1);
        assert(all_groups(summary.message_groups@, current_group) =~= ag0.push(c1));
        lemma_vcps_step(ms, i as int, vcps0, summary.volume_coverage_patterns@);
    }
@close "MessageContents::VolumeCoveragePattern(vcp_data) => {"
    proof {
        let c1 = current_group->Some_0;
        assert(kind(ms[i as int]) is Vcp);
        assert(grp_ok(ms, c1)) by { reveal(grp_base); }
        lemma_seq_push(ms, ag0, c1);
        assert(all_groups(summary.message_groups@, current_group) =~= ag0.push(c1));
        lemma_times_step(ms, i as int, late0, early0, summary.latest_collection_time, summary.earliest_collection_time);
        lemma_vcps_step(ms, i as int, vcps0, summary.volume_coverage_patterns@);
    }
@close "_ => {"
    proof {
        let c1 = current_group->Some_0;
        assert(kind(ms[i as int]) is Other);
        assert(grp_ok(ms, c1)) by { reveal(grp_base); }
        if can_combine {
            lemma_seq_replace_last(ms, ag0, c1);
            assert(all_groups(summary.message_groups@, current_group) =~= ag0.drop_last().push(c1));
        } else {
            lemma_seq_push(ms, ag0, c1);
            assert(all_groups(summary.message_groups@, current_group) =~= ag0.push(c1));
        }
        lemma_times_step(ms, i as int, late0, early0, summary.latest_collection_time, summary.earliest_collection_time);
        lemma_vcps_step(ms, i as int, vcps0, summary.volume_coverage_patterns@);
    }
@loop 0 after
    let ghost old_groups = summary.message_groups@;
    let ghost old_cur = current_group;
@tail
    proof {
        assert(summary.message_groups@ =~= all_groups(old_groups, old_cur));
    }
