@sig ret=r
    // C10 (proved against the same table in unit `framing`): each code maps to its own type
    ensures r == spec_type(self.message_type)
@entry
    reveal(spec_type);
