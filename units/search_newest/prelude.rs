// C15 functional statement: under the property's hypothesis the search returns the newest populated index.
// (olt / ssr / at / lemma_at and the queue-weight lemmas come from units/search/prelude.rs)
// ---- the property's hypothesis: the populated entries form one contiguous run in rotation order, oldest to
// newest (strictly increasing upload times along the run); every upload time is below the target
spec fn pop(a: Seq<Option<V>>, i: int) -> bool { 0 <= i < a.len() && a[i] is Some }
spec fn val(a: Seq<Option<V>>, i: int) -> V { a[i]->Some_0 }

// no wrap: populated = [p, q)
spec fn shape1(a: Seq<Option<V>>, p: int, q: int) -> bool {
    &&& 0 <= p <= q <= a.len()
    &&& forall|i: int| 0 <= i < a.len() ==> (#[trigger] pop(a, i) <==> p <= i < q)
    &&& forall|i: int, j: int| p <= i < j < q ==> #[trigger] val(a, i) < #[trigger] val(a, j)
}
// wrap: newer part [0, e], then empty directories, then older part [p, n)
spec fn shape2(a: Seq<Option<V>>, e: int, p: int) -> bool {
    &&& 0 <= e < p < a.len()
    &&& forall|i: int| 0 <= i < a.len() ==> (#[trigger] pop(a, i) <==> (i <= e || i >= p))
    &&& forall|i: int, j: int| 0 <= i < j <= e ==> #[trigger] val(a, i) < #[trigger] val(a, j)
    &&& forall|i: int, j: int| p <= i < j < a.len() ==> #[trigger] val(a, i) < #[trigger] val(a, j)
    &&& val(a, a.len() - 1) < val(a, 0)
}
spec fn rotated_run(a: Seq<Option<V>>) -> bool {
    (exists|p: int, q: int| shape1(a, p, q)) || (exists|e: int, p: int| shape2(a, e, p))
}
spec fn below(a: Seq<Option<V>>, t: V) -> bool { forall|i: int| #[trigger] pop(a, i) ==> val(a, i) < t }

// the answer the property demands: the populated index with the latest time; none iff nothing is populated
spec fn is_newest(a: Seq<Option<V>>, o: Option<int>) -> bool {
    match o {
        None => forall|i: int| !#[trigger] pop(a, i),
        Some(m) => pop(a, m) && forall|j: int| #[trigger] pop(a, j) ==> val(a, j) <= val(a, m),
    }
}

// what phase 2 will see on [lo, hi) after phase 1 settled on the populated index m and a direction.
// live(i): populated, newer than m, and the direction test sends the search to the right of i
// dead(i): empty or older than m, and the direction test sends the search to the left of i
spec fn live(a: Seq<Option<V>>, t: V, m: int, r: Option<V>, i: int) -> bool {
    pop(a, i) && val(a, i) > val(a, m) && ssr(r, a[i], Some(t))
}
spec fn dead(a: Seq<Option<V>>, t: V, m: int, r: Option<V>, i: int) -> bool {
    (!pop(a, i) || val(a, i) < val(a, m)) && !ssr(r, a[i], Some(t))
}
spec fn stale(a: Seq<Option<V>>, m: int, i: int) -> bool { !pop(a, i) || val(a, i) < val(a, m) }

// the reference element phase 2 compares against: the entry at the start of the chosen range
spec fn ref_at(a: Seq<Option<V>>, lo: int) -> Option<V> { if 0 <= lo < a.len() { a[lo] } else { None } }

spec fn plan_ok(a: Seq<Option<V>>, t: V, m: int, lo: int, hi: int, climb: bool, b: int) -> bool {
    let r = ref_at(a, lo);
    if climb {
        &&& lo <= b <= hi
        &&& forall|i: int| lo <= i < b ==> #[trigger] live(a, t, m, r, i)
        &&& forall|i: int, j: int| lo <= i < j < b ==> #[trigger] val(a, i) < #[trigger] val(a, j)
        &&& forall|i: int| b <= i < hi ==> #[trigger] dead(a, t, m, r, i)
        &&& is_newest(a, Some(if b > lo { b - 1 } else { m }))
    } else {
        &&& forall|i: int| lo <= i < hi ==> #[trigger] stale(a, m, i)
        &&& is_newest(a, Some(m))
    }
}

spec fn plan_for(a: Seq<Option<V>>, t: V, m: int, climb: bool, b: int) -> bool {
    let right = ssr(a[0], a[m], Some(t));
    let lo = if right { m + 1 } else { 0 };
    let hi = if right { a.len() as int } else { m };
    plan_ok(a, t, m, lo, hi, climb, b)
}

proof fn lemma_plan_shape1(a: Seq<Option<V>>, t: V, m: int, p: int, q: int) -> (r: (bool, int))
    requires shape1(a, p, q), below(a, t), pop(a, m)
    ensures plan_for(a, t, m, r.0, r.1)
{
    let n = a.len() as int;
    assert(pop(a, m));
    assert(val(a, m) < t);
    assert(p <= m < q);
    if a[0] is Some { assert(pop(a, 0)); assert(p == 0); if m > 0 { assert(val(a, 0) < val(a, m)); } }
    let right = ssr(a[0], a[m], Some(t));
    assert(right);
    let lo = m + 1;
    let hi = n;
    if m + 1 < q {
        assert(pop(a, m + 1));
        assert forall|i: int| lo <= i < q implies #[trigger] live(a, t, m, a[lo], i) by {
            assert(pop(a, i));
            assert(val(a, m) < val(a, i));
            assert(val(a, i) < t);
            if i > lo { assert(val(a, lo) < val(a, i)); }
        }
        assert forall|i: int| q <= i < hi implies #[trigger] dead(a, t, m, a[lo], i) by {
            assert(!pop(a, i));
        }
        assert(is_newest(a, Some(q - 1))) by {
            assert(pop(a, q - 1));
            assert forall|j: int| #[trigger] pop(a, j) implies val(a, j) <= val(a, q - 1) by {
                if j < q - 1 { assert(val(a, j) < val(a, q - 1)); }
            }
        }
        (true, q)
    } else {
        assert forall|i: int| lo <= i < hi implies #[trigger] stale(a, m, i) by { assert(!pop(a, i)); }
        assert forall|j: int| #[trigger] pop(a, j) implies val(a, j) <= val(a, m) by {
            if j < m { assert(val(a, j) < val(a, m)); }
        }
        (false, 0)
    }
}

proof fn lemma_shape2_facts(a: Seq<Option<V>>, e: int, p: int)
    requires shape2(a, e, p)
    ensures
        forall|i: int, j: int| p <= i < a.len() && 0 <= j <= e ==> #[trigger] val(a, i) < #[trigger] val(a, j),
        is_newest(a, Some(e)),
{
    let n = a.len() as int;
    assert forall|i: int, j: int| p <= i < n && 0 <= j <= e implies #[trigger] val(a, i) < #[trigger] val(a, j) by {
        if i < n - 1 { assert(val(a, i) < val(a, n - 1)); }
        if 0 < j { assert(val(a, 0) < val(a, j)); }
    }
    assert(pop(a, e));
    assert forall|j: int| #[trigger] pop(a, j) implies val(a, j) <= val(a, e) by {
        if j < e { assert(val(a, j) < val(a, e)); }
        else if j > e { assert(j >= p); assert(val(a, j) < val(a, e)); }
    }
}

// settled on an index of the newer part [0, e]: go right
proof fn lemma_plan_shape2_high(a: Seq<Option<V>>, t: V, m: int, e: int, p: int) -> (r: (bool, int))
    requires shape2(a, e, p), below(a, t), pop(a, m), m <= e
    ensures plan_for(a, t, m, r.0, r.1)
{
    let n = a.len() as int;
    lemma_shape2_facts(a, e, p);
    assert(pop(a, 0));
    assert(val(a, m) < t);
    if m > 0 { assert(val(a, 0) < val(a, m)); }
    let right = ssr(a[0], a[m], Some(t));
    assert(right);
    let lo = m + 1;
    let hi = n;
    if m < e {
        assert(pop(a, m + 1));
        assert forall|i: int| lo <= i < e + 1 implies #[trigger] live(a, t, m, a[lo], i) by {
            assert(pop(a, i)); assert(val(a, m) < val(a, i)); assert(val(a, i) < t);
            if i > lo { assert(val(a, lo) < val(a, i)); }
        }
        assert forall|i: int| e + 1 <= i < hi implies #[trigger] dead(a, t, m, a[lo], i) by {
            if i >= p { assert(pop(a, i)); assert(val(a, i) < val(a, m)); assert(val(a, i) < val(a, lo)); assert(val(a, i) < t); }
            else { assert(!pop(a, i)); }
        }
        (true, e + 1)
    } else {
        assert forall|i: int| lo <= i < hi implies #[trigger] stale(a, m, i) by {
            if i >= p { assert(val(a, i) < val(a, m)); } else { assert(!pop(a, i)); }
        }
        (false, 0)
    }
}

// settled on an index of the older part [p, n): go left
proof fn lemma_plan_shape2_low(a: Seq<Option<V>>, t: V, m: int, e: int, p: int) -> (r: (bool, int))
    requires shape2(a, e, p), below(a, t), pop(a, m), m > e
    ensures plan_for(a, t, m, r.0, r.1)
{
    let n = a.len() as int;
    lemma_shape2_facts(a, e, p);
    assert(pop(a, 0));
    assert(m >= p);
    assert(val(a, m) < val(a, 0));
    assert(val(a, m) < t);
    assert(val(a, 0) < t);
    let right = ssr(a[0], a[m], Some(t));
    assert(!right);
    let hi = m;
    assert forall|i: int| 0 <= i < e + 1 implies #[trigger] live(a, t, m, a[0], i) by {
        assert(pop(a, i)); assert(val(a, m) < val(a, i)); assert(val(a, i) < t);
        if i > 0 { assert(val(a, 0) < val(a, i)); }
    }
    assert forall|i: int| e + 1 <= i < hi implies #[trigger] dead(a, t, m, a[0], i) by {
        if i >= p { assert(pop(a, i)); assert(val(a, i) < val(a, m)); assert(val(a, i) < val(a, 0)); assert(val(a, i) < t); }
        else { assert(!pop(a, i)); }
    }
    assert(0 <= e + 1 <= hi);
    assert(forall|i: int, j: int| 0 <= i < j < e + 1 ==> #[trigger] val(a, i) < #[trigger] val(a, j));
    assert(is_newest(a, Some(e)));
    assert(plan_ok(a, t, m, 0, hi, true, e + 1));
    (true, e + 1)
}

proof fn lemma_plan(a: Seq<Option<V>>, t: V, m: int) -> (r: (bool, int))
    requires rotated_run(a), below(a, t), pop(a, m)
    ensures plan_for(a, t, m, r.0, r.1)
{
    if exists|p: int, q: int| shape1(a, p, q) {
        let (p, q) = choose|p: int, q: int| shape1(a, p, q);
        lemma_plan_shape1(a, t, m, p, q)
    } else {
        let (e, p) = choose|e: int, p: int| shape2(a, e, p);
        if m <= e { lemma_plan_shape2_high(a, t, m, e, p) } else { lemma_plan_shape2_low(a, t, m, e, p) }
    }
}

// the closure presents the array a: whenever a listing request succeeds at index i it yields a[i] (a request may
// fail; then the search fails too and nothing is claimed)
spec fn consistent<F: Fn(usize) -> Result<Option<V>>>(f: F, a: Seq<Option<V>>) -> bool {
    forall|i: usize, o: Option<V>| i < a.len() && #[trigger] f.ensures((i,), Ok(o)) ==> o == a[i as int]
}
spec fn to_int(o: Option<usize>) -> Option<int> { match o { Some(i) => Some(i as int), None => None } }

// phase 1 bookkeeping: every populated index is still inside some queued interval
spec fn covered(q: Seq<(usize, usize)>, i: int) -> bool { exists|k: int| 0 <= k < q.len() && (#[trigger] q[k]).0 <= i <= q[k].1 }
spec fn all_covered(a: Seq<Option<V>>, q: Seq<(usize, usize)>) -> bool { forall|i: int| #[trigger] pop(a, i) ==> covered(q, i) }

proof fn lemma_cov_drop_empty(a: Seq<Option<V>>, q: Seq<(usize, usize)>)
    requires q.len() > 0, q[0].0 > q[0].1, all_covered(a, q)
    ensures all_covered(a, q.drop_first())
{
    assert forall|i: int| #[trigger] pop(a, i) implies covered(q.drop_first(), i) by {
        let k = choose|k: int| 0 <= k < q.len() && (#[trigger] q[k]).0 <= i <= q[k].1;
        assert(k > 0);
        assert(q.drop_first()[k - 1] == q[k]);
    }
}
proof fn lemma_cov_split(a: Seq<Option<V>>, q: Seq<(usize, usize)>, mid: usize, q2: Seq<(usize, usize)>)
    requires q.len() > 0, q[0].0 <= mid <= q[0].1, mid < a.len(), a[mid as int] is None, all_covered(a, q),
             mid + 1 <= usize::MAX,
             q2 == (if mid > 0 { q.drop_first().push(((mid + 1) as usize, q[0].1)).push((q[0].0, (mid - 1) as usize)) }
                    else { q.drop_first().push(((mid + 1) as usize, q[0].1)) }),
    ensures all_covered(a, q2)
{
    let base = q.drop_first();
    assert forall|i: int| #[trigger] pop(a, i) implies covered(q2, i) by {
        let k = choose|k: int| 0 <= k < q.len() && (#[trigger] q[k]).0 <= i <= q[k].1;
        if k > 0 {
            assert(q2[k - 1] == q[k]);
        } else {
            assert(i != mid);
            if i > mid {
                assert(q2[base.len() as int] == (((mid + 1) as usize), q[0].1));
            } else {
                assert(mid > 0);
                assert(q2[base.len() as int + 1] == (q[0].0, ((mid - 1) as usize)));
            }
        }
    }
}
proof fn lemma_cov_empty(a: Seq<Option<V>>, q: Seq<(usize, usize)>)
    requires q.len() == 0, all_covered(a, q)
    ensures forall|i: int| !#[trigger] pop(a, i)
{}

// state after phase 1
spec fn phase1_post(a: Seq<Option<V>>, t: V, nearest: Option<usize>, nearest_value: Option<V>, low: usize, high: usize) -> bool {
    match nearest {
        None => nearest_value is None && low == 0 && high == a.len() && forall|i: int| !#[trigger] pop(a, i),
        Some(m) => pop(a, m as int) && nearest_value == a[m as int]
            && (if ssr(a[0], a[m as int], Some(t)) { low == m + 1 && high == a.len() } else { low == 0 && high == m }),
    }
}

// phase 2 invariant
spec fn phase2_inv(a: Seq<Option<V>>, t: V, m: Option<int>, lo0: int, hi0: int, climb: bool, b: int,
                   nearest: Option<usize>, nearest_value: Option<V>, low: int, high: int, first: Option<V>) -> bool {
    match m {
        None => nearest is None && nearest_value is None && (forall|i: int| !#[trigger] pop(a, i)),
        Some(m) => {
            &&& pop(a, m)
            &&& lo0 <= low <= high <= hi0 <= a.len()
            &&& plan_ok(a, t, m, lo0, hi0, climb, b)
            &&& first == ref_at(a, lo0)
            &&& nearest is Some && nearest_value == a[nearest->Some_0 as int]
            &&& if climb { low <= b <= high && nearest->Some_0 == (if low > lo0 { low - 1 } else { m }) }
                else { nearest->Some_0 == m }
        },
    }
}
