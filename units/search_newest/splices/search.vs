@sig ret=res
    requires
        element_count <= usize::MAX / 2,   // `(start + end) / 2` is computed in usize
        forall|i: usize| i < element_count ==> f.requires((i,)),
        // the closure presents the array a (single-task sequentialisation, R-async)
        a.len() == element_count, consistent(f, a),
        // C15 hypothesis: one contiguous populated run in rotation order, oldest to newest; target above all times
        rotated_run(a), below(a, target),
    ensures
        // C15: the populated directory uploaded most recently — wherever it lies — or none when all are empty
        // (a failed listing request makes the search fail; nothing is claimed then)
        res matches Ok(o) ==> is_newest(a, to_int(o)),
@entry
    let ghost n = element_count as int;
@after "let mut first_value = f(0)"
    proof { assert(a[0] == first_value); if first_value is Some { assert(pop(a, 0)); } }
@before "while !queue.is_empty()"
    proof {
        assert forall|i: int| #[trigger] pop(a, i) implies covered(queue@, i) by { assert(queue@[0].0 <= i <= queue@[0].1); }
    }
@loop 0 header
    invariant_except_break
        low == 0 && high == element_count,
        nearest is None && nearest_value is None,
        all_covered(a, queue@),
    invariant
        element_count > 0, n == element_count, a.len() == n, consistent(f, a),
        forall|i: usize| i < element_count ==> f.requires((i,)),
        below(a, target),
        some_target == Some(&target),
        first_value == a[0], opt_val(first_value_ref) == first_value,
        element_count <= usize::MAX / 2,
        forall|q: int| 0 <= q < queue@.len() ==> (#[trigger] queue@[q]).1 < element_count,
    ensures
        phase1_post(a, target, nearest, nearest_value, low, high),
    decreases queue_weight(queue@)
@before "if let Some((start, end)) = queue.pop_front()"
    let ghost old_q = queue@;
@before "if start"
    proof { lemma_weight_front(old_q); assert(old_q.drop_first() == queue@); assert(old_q.first() == (start, end)); }
@before "continue" nth=0
    proof { lemma_weight_nonneg(queue@); lemma_cov_drop_empty(a, old_q); }
@after "let mid_value = f(mid)"
    proof { assert(a[mid as int] == mid_value); if mid_value is Some { assert(pop(a, mid as int)); } }
@before "queue.push_back((mid + 1, end))"
    let ghost q1 = queue@;
@after "queue.push_back((mid + 1, end))"
    let ghost q2 = queue@;
    proof { assert(q2.drop_last() == q1); }
@after "queue.push_back((start, mid - 1))"
    proof { assert(queue@.drop_last() == q2); }
@before "continue" nth=1
    proof {
        lemma_weight_nonneg(queue@);
        assert(q2.last() == (((mid + 1) as usize), end));
        assert(queue_weight(q2) == queue_weight(q1) + iw(((mid + 1) as usize, end)));
        if mid > 0 {
            assert(queue@.last() == (start, ((mid - 1) as usize)));
            assert(queue_weight(queue@) == queue_weight(q2) + iw((start, (mid - 1) as usize)));
        }
        assert(queue_weight(queue@) < queue_weight(old_q));
        lemma_cov_split(a, old_q, mid, queue@);
    }
@loop 0 after
    let ghost m: Option<int> = to_int(nearest);
    let ghost lo0 = low as int;
    let ghost hi0 = high as int;
    let ghost plan: (bool, int) = (false, 0);
    proof { if nearest is Some { plan = lemma_plan(a, target, nearest->Some_0 as int); } }
    let ghost climb = plan.0;
    let ghost b = plan.1;
@after "first_value = f(low)"
    proof { assert(a[low as int] == first_value); }
@loop 1 header
    invariant
        element_count > 0, n == element_count, a.len() == n, consistent(f, a),
        forall|i: usize| i < element_count ==> f.requires((i,)),
        below(a, target),
        some_target == Some(&target),
        low <= high <= element_count,
        opt_val(first_value_ref) == first_value,
        phase2_inv(a, target, m, lo0, hi0, climb, b, nearest, nearest_value, low as int, high as int, first_value),
    decreases high - low
@after "let value = f(mid)"
    proof {
        assert(a[mid as int] == value);
        if value is Some { assert(pop(a, mid as int)); }
        if m is Some {
            let mm = m->Some_0;
            let r = ref_at(a, lo0);
            assert(plan_ok(a, target, mm, lo0, hi0, climb, b));
            assert(lo0 <= low <= mid < high <= hi0);
            if climb {
                if mid < b { assert(live(a, target, mm, r, mid as int)); if low as int > lo0 { assert(live(a, target, mm, r, low as int - 1)); } }
                else { assert(dead(a, target, mm, r, mid as int)); if low as int > lo0 { assert(live(a, target, mm, r, low as int - 1)); } }
            } else { assert(stale(a, mm, mid as int)); }
        }
    }
