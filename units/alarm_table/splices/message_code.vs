@sig ret=r
    ensures r == self.code
