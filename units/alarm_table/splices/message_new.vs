@sig ret=r
    ensures r.code == code, r.state == state, r.alarm_type == alarm_type, r.device == device, r.sample == sample
