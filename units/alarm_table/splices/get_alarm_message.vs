@sig ret=r
    // C12: for every 16-bit code a definition carrying that same code for 0..=800 and nothing above
    ensures
        code <= 800 ==> (r is Some && r->Some_0.code == code),
        code > 800 ==> r is None,
