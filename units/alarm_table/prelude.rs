// no prelude needed: the contract speaks only about the extracted types
