@sig ret=r
    ensures r@ == self.0@
