@sig ret=r
    ensures r.0@ == name@
