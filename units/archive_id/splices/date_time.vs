@sig ret=r
    // C16: bytes 4..12 parsed as %Y%m%d and bytes 13..19 as %H%M%S; none when either slice does not exist (too short,
    // or not on a character boundary) or does not parse; total for every string
    ensures r == date_time_spec(self.0@)
