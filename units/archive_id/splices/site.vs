@sig ret=r
    // C16: the site is the first four bytes when they end on a character boundary, none otherwise; never a panic
    ensures r == str_get_gen::<Range<usize>>(self.0@, 0..4)
