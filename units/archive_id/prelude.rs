use core::ops::Range;
use core::slice::SliceIndex;

// ---- ASSUMED std contract: str::get never panics; what it returns is the uninterpreted str_get_gen, pinned down for
//      ASCII strings (byte offsets == character offsets) by axiom_get_ascii ---------------------------------------
pub uninterp spec fn str_get_gen<I: SliceIndex<str>>(s: Seq<char>, i: I) -> Option<&'static I::Output>;
pub assume_specification<I: SliceIndex<str>>[ str::get::<I> ](s: &str, i: I) -> (o: Option<&I::Output>)
    ensures o == str_get_gen::<I>(s@, i);
// UTF-8 length in bytes (String::len / str::len); equal to the character count for ASCII text
pub uninterp spec fn byte_len(s: Seq<char>) -> usize;
pub assume_specification[ String::len ](s: &String) -> (r: usize) ensures r == byte_len(s@);
pub open spec fn ascii_seq(s: Seq<char>) -> bool { forall|i: int| 0 <= i < s.len() ==> (#[trigger] s[i] as u32) < 128 }
pub broadcast axiom fn axiom_get_ascii(s: Seq<char>, a: usize, b: usize)
    requires ascii_seq(s), a <= b <= s.len(),
    ensures (#[trigger] str_get_gen::<Range<usize>>(s, a..b)) matches Some(x) && x@ == s.subrange(a as int, b as int);

// ---- ASSUMED chrono contracts: the two parsers are total functions of (text, format); what they parse is not decided
pub mod chrono {
    use super::*;
    #[verifier::external_body] pub struct NaiveDate { _p: () }
    #[verifier::external_body] pub struct NaiveTime { _p: () }
    #[verifier::external_body] pub struct NaiveDateTime { _p: () }
    #[verifier::external_body] pub struct ParseError { _p: () }
    #[verifier::external_body] #[verifier::reject_recursive_types(Tz)]
    pub struct DateTime<Tz> { _p: core::marker::PhantomData<Tz> }
    pub struct Utc;
    pub uninterp spec fn parse_date(s: Seq<char>, f: Seq<char>) -> Option<NaiveDate>;
    pub uninterp spec fn parse_time(s: Seq<char>, f: Seq<char>) -> Option<NaiveTime>;
    pub uninterp spec fn combine(d: NaiveDate, t: NaiveTime) -> NaiveDateTime;
    pub uninterp spec fn as_utc(n: NaiveDateTime) -> DateTime<Utc>;
    impl NaiveDate {
        #[verifier::external_body]
        pub fn parse_from_str(s: &str, fmt: &str) -> (r: Result<NaiveDate, ParseError>)
            ensures match r { Ok(d) => parse_date(s@, fmt@) == Some(d), Err(_) => parse_date(s@, fmt@) is None }
        { unimplemented!() }
    }
    impl NaiveTime {
        #[verifier::external_body]
        pub fn parse_from_str(s: &str, fmt: &str) -> (r: Result<NaiveTime, ParseError>)
            ensures match r { Ok(d) => parse_time(s@, fmt@) == Some(d), Err(_) => parse_time(s@, fmt@) is None }
        { unimplemented!() }
    }
    impl NaiveDateTime {
        #[verifier::external_body]
        pub fn new(date: NaiveDate, time: NaiveTime) -> (r: NaiveDateTime) ensures r == combine(date, time) { unimplemented!() }
    }
    impl DateTime<Utc> {
        #[verifier::external_body]
        pub fn from_naive_utc_and_offset(n: NaiveDateTime, o: Utc) -> (r: DateTime<Utc>) ensures r == as_utc(n) { unimplemented!() }
    }
}
use chrono::{DateTime, NaiveDate, NaiveDateTime, NaiveTime, Utc};
use chrono::{parse_date, parse_time, combine, as_utc};

// ---- the property's spec (C16, archive-name clauses) ------------------------------------------------------------------
spec fn date_time_spec(s: Seq<char>) -> Option<DateTime<Utc>> {
    match str_get_gen::<Range<usize>>(s, 4..12) {
        None => None,
        Some(d) => match parse_date(d@, "%Y%m%d"@) {
            None => None,
            Some(date) => match str_get_gen::<Range<usize>>(s, 13..19) {
                None => None,
                Some(t) => match parse_time(t@, "%H%M%S"@) {
                    None => None,
                    Some(time) => Some(as_utc(combine(date, time))),
                },
            },
        },
    }
}
// "for every archive file name of the form SSSSYYYYMMDD_HHMMSS plus suffix the site and date-time are recovered": for an
// ASCII name the site is its first four characters and the date-time is parsed from characters 4..12 and 13..19
proof fn lemma_archive_name(s: Seq<char>)
    requires ascii_seq(s), s.len() >= 19,
    ensures
        str_get_gen::<Range<usize>>(s, 0..4) matches Some(x) && x@ == s.subrange(0, 4),
        date_time_spec(s) == (match (parse_date(s.subrange(4, 12), "%Y%m%d"@), parse_time(s.subrange(13, 19), "%H%M%S"@)) {
            (Some(d), Some(t)) => Some(as_utc(combine(d, t))),
            _ => None,
        }),
{
    axiom_get_ascii(s, 0, 4);
    axiom_get_ascii(s, 4, 12);
    axiom_get_ascii(s, 13, 19);
}
