// opaque stand-in for the dependency type the identifier merely carries (Option<DateTime<Utc>>)
mod chrono {
    #[verifier::external_body] #[verifier::reject_recursive_types(Tz)] pub struct DateTime<Tz> { _p: core::marker::PhantomData<Tz> }
    pub struct Utc;
}
use chrono::{DateTime, Utc};

// ---- ASSUMED string contracts (std fmt / parse / slicing): names are abstract ------------------------
// name_of(prefix, seq, letter): the text `{prefix}-{seq:03}-{letter}`
pub uninterp spec fn name_of(prefix: Seq<char>, seq: int, letter: char) -> Seq<char>;
// the first 15 bytes of a name; the sequence number a name parses to (third '-'-separated field)
pub uninterp spec fn prefix_of(name: Seq<char>) -> Seq<char>;
pub uninterp spec fn seq_of(name: Seq<char>) -> Option<int>;
// name is long enough (and char-aligned) for its 15-byte prefix to be taken
pub uninterp spec fn name_ok(name: Seq<char>) -> bool;

// std fmt/parse round trip (assumed): a generated name parses back to its parts
pub broadcast axiom fn axiom_name_round_trip(p: Seq<char>, s: int, t: char)
    requires p.len() == 15, 0 <= s <= 999
    ensures #[trigger] seq_of(name_of(p, s, t)) == Some(s),
            prefix_of(name_of(p, s, t)) == p,
            name_ok(name_of(p, s, t)),
            name_of(p, s, t).last() == t;

spec fn letter_for(seq: int) -> char { if seq == 1 { 'S' } else if seq == 55 { 'E' } else { 'I' } }
spec fn letter_str(s: Seq<char>) -> char { s[0] }

impl ChunkIdentifier {
    #[verifier::external_body]
    fn name_prefix(&self) -> (r: &str)
        requires name_ok(self.name@)
        ensures r@ == prefix_of(self.name@)
    { unimplemented!() }

    #[verifier::external_body]
    fn sequence(&self) -> (r: Option<usize>)
        ensures match r { Some(s) => seq_of(self.name@) == Some(s as int), None => seq_of(self.name@) is None }
    { unimplemented!() }
}

// R-shim for `format!("{}-{:03}-{}", prefix, sequence, letter)`: the body *is* that call; the precondition pins
// the format string, so a changed format string fails a call-site obligation
#[verifier::external_body]
fn shim_format_chunk_name(fmt: &str, prefix: &str, sequence: usize, letter: &str) -> (r: String)
    requires fmt@ == "{}-{:03}-{}"@, letter@.len() == 1
    ensures r@ == name_of(prefix@, sequence as int, letter@[0])
{ format!("{}-{:03}-{}", prefix, sequence, letter) }

// ---- successor arithmetic, from the property --------------------------------------------------------
spec fn succ_volume(v: int) -> int { if v + 1 > 999 { 1 } else { v + 1 } }

// position k in 0..54945 <-> (volume, sequence) in {1..999} x {1..55}; succ is +1 modulo 999*55
spec fn pos_of(v: int, s: int) -> int { (v - 1) * 55 + (s - 1) }
spec fn succ_pair(v: int, s: int) -> (int, int) { if s < 55 { (v, s + 1) } else { (succ_volume(v), 1) } }

// C16 cycle clause: repeatedly taking successors visits all 999 x 55 positions exactly once per cycle:
// succ is "+1 mod 54945" on positions, hence a single cycle of length 54945, and it never leaves the grid
proof fn lemma_succ_is_plus_one(v: int, s: int)
    requires 1 <= v <= 999, 1 <= s <= 55
    ensures ({ let (v2, s2) = succ_pair(v, s);
               1 <= v2 <= 999 && 1 <= s2 <= 55 && pos_of(v2, s2) == (pos_of(v, s) + 1) % 54945 })
{
    let p = pos_of(v, s);
    assert(0 <= p < 54945) by (nonlinear_arith) requires p == (v - 1) * 55 + (s - 1), 1 <= v <= 999, 1 <= s <= 55;
    if s < 55 {
        assert(p + 1 < 54945) by (nonlinear_arith) requires p == (v - 1) * 55 + (s - 1), 1 <= v <= 999, 1 <= s < 55;
        vstd::arithmetic::div_mod::lemma_small_mod((p + 1) as nat, 54945);
    } else if v < 999 {
        assert(p + 1 == v * 55) by (nonlinear_arith) requires p == (v - 1) * 55 + 54;
        assert(p + 1 < 54945) by (nonlinear_arith) requires p + 1 == v * 55, v < 999;
        vstd::arithmetic::div_mod::lemma_small_mod((p + 1) as nat, 54945);
    } else {
        assert(p + 1 == 54945);
        vstd::arithmetic::div_mod::lemma_mod_self_0(54945);
    }
}

spec fn next_is_sequence(me: ChunkIdentifier, r: Option<NextChunk>) -> bool {
    let s = seq_of(me.name@)->Some_0;
    &&& r is Some && r->Some_0 is Sequence
    &&& r->Some_0->Sequence_0.site@ == me.site@
    &&& r->Some_0->Sequence_0.volume == me.volume
    &&& r->Some_0->Sequence_0.date_time is None
    &&& r->Some_0->Sequence_0.name@ == name_of(prefix_of(me.name@), s + 1, if s + 1 == 55 { 'E' } else { 'I' })
}
