@sig ret=r
    // the crate's own debug_assert!(index <= 999) is a call-site obligation here
    requires index <= 999
    ensures r.0 == index
