@sig ret=r
    requires name_ok(self.name@)
    // C16: an identifier for another sequence keeps site, volume and prefix; type letter by 1 / 55 / other
    ensures
        r.site@ == self.site@,
        r.volume == self.volume,
        r.name@ == name_of(prefix_of(self.name@), sequence as int, letter_for(sequence as int)),
        r.date_time is None,
@entry
    proof { reveal_strlit("S"); reveal_strlit("E"); reveal_strlit("I"); }
