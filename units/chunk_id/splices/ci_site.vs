@sig ret=r
    ensures r@ == self.site@
