@sig ret=r
    requires name_ok(self.name@), 1 <= self.volume.0 <= 999
    // C16: successor of (volume, sequence): (volume, sequence + 1) below 55 (type E exactly at 55, else I),
    // the next volume in rotation at 55 and above with 999 wrapping to 1; never volume 0 or 1000
    ensures
        seq_of(self.name@) is None ==> r is None,
        (seq_of(self.name@) is Some && seq_of(self.name@)->Some_0 < 55) ==> next_is_sequence(*self, r),
        (seq_of(self.name@) is Some && seq_of(self.name@)->Some_0 >= 55) ==> (r is Some && r->Some_0 is Volume
            && r->Some_0->Volume_0.0 == succ_volume(self.volume.0 as int) && 1 <= r->Some_0->Volume_0.0 <= 999),
@entry
    proof { reveal_strlit("S"); reveal_strlit("E"); reveal_strlit("I"); }
