@sig ret=r
    ensures r.site == site, r.volume == volume, r.name == name, r.date_time == date_time
