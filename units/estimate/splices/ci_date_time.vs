@sig ret=r
    ensures r == self.date_time
