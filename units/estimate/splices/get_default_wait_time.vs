@sig ret=r
    // C19 defaults: 11 s contiguous surveillance, 7 s constant phase, 4 s otherwise
    ensures dur_ms(r) == default_wait_ms(waveform_type, channel_config)
