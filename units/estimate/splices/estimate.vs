@sig ret=r
    requires volume_coverage_pattern.elevations@.len() <= 0xFFFF
    // C19: none when the previous sequence is outside 1..=55 or the next chunk has no cut; +10 s after an end
    // chunk; otherwise previous upload time (or now) plus the history mean adjusted by the mean attempt count
    // when such history exists, else the static default
    ensures estimate_spec(*previous_chunk, *volume_coverage_pattern, timing_stats, r),
@closure 0 params="stats: &ChunkTimingStats" ret="o: Option<chrono::Duration>"
    ensures o == avg_timing(*stats, characteristics)
@closure 1 params="stats: &ChunkTimingStats" ret="o: Option<f64>"
    ensures o == avg_attempts(*stats, characteristics), o matches Some(a) ==> f64_as_i64(a) >= 0
@entry
    broadcast use chrono::axiom_duration_add_assign;
