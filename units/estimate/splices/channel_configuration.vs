@sig ret=r
    ensures r == chan_of(self.channel_configuration)
