@sig ret=r
    ensures r == wave_of(self.waveform_type)
