use nexrad_decode::messages::volume_coverage_pattern::Message;
use std::ops::Add;

// ---- ASSUMED chrono contracts: instants and durations carry a millisecond view; add adds ------------
pub mod chrono {
    use super::*;
    #[verifier::external_body] #[verifier::reject_recursive_types(Tz)]
    pub struct DateTime<Tz> { _p: core::marker::PhantomData<Tz> }
    impl<Tz> Clone for DateTime<Tz> { #[verifier::external_body] fn clone(&self) -> Self { unimplemented!() } }
    impl<Tz> Copy for DateTime<Tz> {}
    pub struct Utc;
    impl Utc {
        #[verifier::external_body] pub fn now() -> DateTime<Utc> { unimplemented!() }
    }
    #[verifier::external_body]
    pub struct Duration { _p: () }
    impl Clone for Duration { #[verifier::external_body] fn clone(&self) -> Self { unimplemented!() } }
    impl Copy for Duration {}
    impl Duration {
        #[verifier::external_body]
        pub fn seconds(n: i64) -> (r: Duration) ensures dur_ms(r) == 1000 * n { unimplemented!() }
    }
    impl DateTime<Utc> {
        // stands for <DateTime<Utc> as Add<TimeDelta>>::add
        #[verifier::external_body]
        pub fn add(self, d: Duration) -> (r: DateTime<Utc>) ensures ms(r) == ms(self) + dur_ms(d) { unimplemented!() }
    }
    impl core::ops::AddAssign<Duration> for Duration {
        #[verifier::external_body]
        fn add_assign(&mut self, d: Duration) { unimplemented!() }
    }
    // `a += b` on durations adds the millisecond views (ASSUMED chrono contract)
    impl vstd::std_specs::ops::AddAssignSpecImpl<Duration> for Duration {
        open spec fn obeys_add_assign_spec() -> bool { true }
        open spec fn add_assign_req(&self, rhs: Duration) -> bool { true }
        uninterp spec fn add_assign_spec(&self, rhs: Duration) -> &Duration;
    }
    pub broadcast axiom fn axiom_duration_add_assign(a: Duration, b: Duration)
        ensures dur_ms(*(#[trigger] <Duration as vstd::std_specs::ops::AddAssignSpec<Duration>>::add_assign_spec(&a, b))) == dur_ms(a) + dur_ms(b);
}
use chrono::{DateTime, Utc};
use chrono::Duration as ChronoDuration;
pub uninterp spec fn ms(t: chrono::DateTime<chrono::Utc>) -> int;
pub uninterp spec fn dur_ms(d: chrono::Duration) -> int;
// R-shim for the saturating float-to-int cast `x as i64` (Verus leaves exec float casts uninterpreted)
pub uninterp spec fn f64_as_i64(x: f64) -> i64;
#[verifier::external_body]
fn shim_f64_as_i64(x: f64) -> (r: i64) ensures r == f64_as_i64(x) { x as i64 }

// ---- contracts of the pieces decided elsewhere ---------------------------------------------------------
pub uninterp spec fn seq_of(name: Seq<char>) -> Option<int>;
impl ChunkIdentifier {
    #[verifier::external_body]
    fn sequence(&self) -> (r: Option<usize>)
        ensures match r { Some(s) => seq_of(self.name@) == Some(s as int), None => seq_of(self.name@) is None }
    { unimplemented!() }
}

// rolling-window statistics (HashMap<_, VecDeque<_>>, iterator sums): ASSUMED as uninterpreted means
#[verifier::external_body]
pub struct ChunkTimingStats { _p: () }
pub uninterp spec fn avg_timing(s: ChunkTimingStats, c: ChunkCharacteristics) -> Option<chrono::Duration>;
pub uninterp spec fn avg_attempts(s: ChunkTimingStats, c: ChunkCharacteristics) -> Option<f64>;
impl ChunkTimingStats {
    #[verifier::external_body]
    fn get_average_timing(&self, characteristics: &ChunkCharacteristics) -> (r: Option<chrono::Duration>)
        ensures r == avg_timing(*self, *characteristics) { unimplemented!() }
    #[verifier::external_body]
    fn get_average_attempts(&self, characteristics: &ChunkCharacteristics) -> (r: Option<f64>)
        // the mean of a non-empty window of usize attempt counts is non-negative (ASSUMED with the window)
        ensures r == avg_attempts(*self, *characteristics), r matches Some(a) ==> f64_as_i64(a) >= 0
    { unimplemented!() }
}

spec fn chan_of(c: u8) -> ChannelConfiguration {
    if c == 0 { ChannelConfiguration::ConstantPhase } else if c == 1 { ChannelConfiguration::RandomPhase }
    else if c == 2 { ChannelConfiguration::SZ2Phase } else { ChannelConfiguration::UnknownPhase }
}
spec fn wave_of(c: u8) -> WaveformType {
    if c == 1 { WaveformType::CS } else if c == 2 { WaveformType::CDW } else if c == 3 { WaveformType::CDWO }
    else if c == 4 { WaveformType::B } else if c == 5 { WaveformType::SPP } else { WaveformType::Unknown }
}
spec fn default_wait_ms(w: WaveformType, c: ChannelConfiguration) -> int {
    if w == WaveformType::CS { 11000 } else if c == ChannelConfiguration::ConstantPhase { 7000 } else { 4000 }
}

// ---- the property's spec (C19 estimate clause) -------------------------------------------------------------
spec fn estimate_spec(prev: ChunkIdentifier, vcp: Message, stats: Option<&ChunkTimingStats>, r: Option<DateTime<Utc>>) -> bool {
    match seq_of(prev.name@) {
        None => r is None,
        Some(s) => {
            if !(1 <= s <= 55) { r is None }
            else if s == 55 { r is Some && based_on(prev, r->Some_0, 10000) }
            else { match cut_of(s + 1, vcp.elevations@) {
                None => r is None,
                Some(i) => {
                    let e = vcp.elevations@[i];
                    let c = ChunkCharacteristics {
                        chunk_type: if s + 1 == 55 { ChunkType::End } else { ChunkType::Intermediate },
                        waveform_type: wave_of(e.waveform_type),
                        channel_configuration: chan_of(e.channel_configuration) };
                    let hist = match stats { Some(st) => (avg_timing(*st, c), avg_attempts(*st, c)), None => (None, None) };
                    let wait = if hist.0 is Some && hist.1 is Some {
                        dur_ms(hist.0->Some_0) + 1000 * (f64_as_i64(hist.1->Some_0) - 1)
                    } else { default_wait_ms(c.waveform_type, c.channel_configuration) };
                    r is Some && based_on(prev, r->Some_0, wait)
                }
            } }
        }
    }
}
// the estimate is the previous chunk's upload time (or, when unknown, some current time) plus `wait` ms
spec fn based_on(prev: ChunkIdentifier, t: DateTime<Utc>, wait: int) -> bool {
    match prev.date_time { Some(p) => ms(t) == ms(p) + wait, None => exists|now: DateTime<Utc>| ms(t) == ms(now) + wait }
}

// C19 corollary: with non-negative recorded durations and at least one attempt per recorded sample, the estimate
// is never earlier than the previous chunk's upload time
proof fn lemma_estimate_not_earlier(prev: ChunkIdentifier, vcp: Message, stats: Option<&ChunkTimingStats>, r: Option<DateTime<Utc>>)
    requires
        estimate_spec(prev, vcp, stats, r), r is Some, prev.date_time is Some,
        stats matches Some(st) ==> forall|c: ChunkCharacteristics|
            (#[trigger] avg_timing(*st, c) matches Some(d) ==> dur_ms(d) >= 0)
            && (avg_attempts(*st, c) matches Some(a) ==> f64_as_i64(a) >= 1),
    ensures ms(r->Some_0) >= ms(prev.date_time->Some_0)
{
}
