use std::sync::Arc;
use std::sync::atomic::AtomicI32;
use std::sync::atomic::Ordering::Relaxed;

// R-mono: upload times (DateTime<Utc>) are modelled by V = u64 (a total order); MAX_UTC is its maximum
const MAX_UTC: V = u64::MAX;

// abstract bucket: the upload time of the first chunk of volume directory d (1..=999) of a site, or none if empty
pub uninterp spec fn bucket(site: &str, d: int) -> Option<V>;
spec fn bucket_seq(site: &str) -> Seq<Option<V>> { Seq::new(999, |i: int| bucket(site, i + 1)) }

pub struct ChunkIdentifier { pub date_time: Option<V> }
impl ChunkIdentifier {
    fn date_time(&self) -> (r: Option<V>) ensures r == self.date_time { self.date_time }
}

// ASSUMED (network): listing directory `volume` with max_keys = 1 yields its first chunk, or fails
#[verifier::external_body]
fn list_chunks_in_volume(site: &str, volume: VolumeIndex, max_keys: usize) -> (r: Result<Vec<ChunkIdentifier>>)
    ensures r matches Ok(v) ==> (if v@.len() > 0 { v@[0].date_time == bucket(site, volume.0 as int) } else { bucket(site, volume.0 as int) is None })
{ unimplemented!() }

// contract of search: exactly the contract proved in unit `search_newest` on the real function
#[verifier::external_body]
fn search<F: Fn(usize) -> Result<Option<V>>>(element_count: usize, target: V, f: F, Ghost(a): Ghost<Seq<Option<V>>>) -> (res: Result<Option<usize>>)
    requires
        element_count <= usize::MAX / 2,
        forall|i: usize| i < element_count ==> f.requires((i,)),
        a.len() == element_count, consistent(f, a),
        rotated_run(a), below(a, target),
    ensures
        res matches Ok(o) ==> is_newest(a, to_int(o)),
{ unimplemented!() }

// the atomic call counter (std::sync::atomic::AtomicI32): vstd provides its specification

// the property's statement for the whole bucket (C15)
spec fn latest_ok(site: &str, v: Option<VolumeIndex>) -> bool {
    match v {
        Some(x) => 1 <= x.0 <= 999 && bucket(site, x.0 as int) is Some
            && forall|d: int| 1 <= d <= 999 && (#[trigger] bucket(site, d)) is Some ==> bucket(site, d)->Some_0 <= bucket(site, x.0 as int)->Some_0,
        None => forall|d: int| 1 <= d <= 999 ==> (#[trigger] bucket(site, d)) is None,
    }
}
