@sig ret=res
    requires
        // C15 hypothesis on the bucket: populated directories form one contiguous run in rotation order, oldest to
        // newest; every upload time is below the maximum instant
        rotated_run(bucket_seq(site)), below(bucket_seq(site), MAX_UTC),
    ensures
        // C15: the populated directory whose first chunk was uploaded most recently, wherever it lies among 1..=999
        // (including 999); none when all are empty
        res matches Ok(r) ==> latest_ok(site, r.volume),
@closure 0 params="volume: usize" ret="r: Result<Option<V>>"
    requires volume < 999
    ensures r matches Ok(o) ==> o == bucket(site, volume as int + 1)
@closure 1 params="chunk: &ChunkIdentifier" ret="o: Option<V>"
    ensures o == chunk.date_time
@closure 2 params="volume: Option<usize>" ret="r: Option<VolumeIndex>"
    requires volume matches Some(i) ==> i < 999
    ensures match volume { Some(i) => r matches Some(x) && x.0 == i + 1, None => r is None }
@closure 3 params="index: usize" ret="x: VolumeIndex"
    requires index < 999
    ensures x.0 == index + 1
@tail
    proof {
        let a = bucket_seq(site);
        assert forall|d: int| 1 <= d <= 999 implies
            ((#[trigger] bucket(site, d)) is Some <==> pop(a, d - 1)) && (pop(a, d - 1) ==> val(a, d - 1) == bucket(site, d)->Some_0) by {
            assert(a[d - 1] == bucket(site, d));
        }
    }
