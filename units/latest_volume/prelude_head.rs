#![feature(allocator_api)]
use std::collections::VecDeque;
