@sig ret=res
    // C03: a fixed-length type occupies exactly one 2432-byte frame (2404 body bytes) whatever its decoder
    // does; type 31 consumes what its own decoder consumes
    ensures match res {
        Ok(c) => spec_contents(message_type, remaining(old(reader))) matches Some(p) && p.0 == c
            && p.1 <= remaining(old(reader)).len()
            && remaining(final(reader)) == remaining(old(reader)).skip(p.1 as int),
        Err(_) => spec_contents(message_type, remaining(old(reader))) is None,
    }
@entry
    broadcast use slice_reader_remaining;
