@sig ret=r
    // C10: segmented => twice the halfword count; variable-length => 32-bit value, high half = segment
    // count field, low half = segment number field
    ensures self.segment_size != 0xFFFF ==> r == 2 * self.segment_size as int,
            self.segment_size == 0xFFFF ==> r == self.segment_count as int * 65536 + self.segment_number as int,
@entry
    proof {
        let c = self.segment_count as u32;
        let n = self.segment_number as u32;
        assert(c <= 0xFFFF && n <= 0xFFFF ==> ((c << 16) | n) == c * 65536 + n) by (bit_vector);
    }
