@sig ret=r
    // C10: each defined code maps to its own type, every other code is preserved verbatim as Unknown(code)
    ensures r == spec_type(self.message_type)
