@sig ret=r
    ensures r == (self.segment_size != 0xFFFF)
