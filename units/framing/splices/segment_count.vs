@sig ret=r
    ensures self.segment_size != 0xFFFF ==> r == Some(self.segment_count),
            self.segment_size == 0xFFFF ==> r is None,
