@sig ret=r
    ensures r.header == header, r.contents == contents
