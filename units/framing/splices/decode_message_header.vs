@sig ret=res
    ensures match res {
        Ok(v) => remaining(old(reader)).len() >= 28 && v == MessageHeader::parse(remaining(old(reader)).take(28))
            && remaining(final(reader)) == remaining(old(reader)).skip(28),
        Err(_) => remaining(old(reader)).len() < 28,
    }
