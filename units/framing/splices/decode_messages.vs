@sig ret=res
    // C03: the result is exactly the stream the property describes (spec_stream): as many messages as were
    // concatenated, in order, each equal to its stand-alone decode; a trailing fragment < 28 bytes is
    // ignored; a cut inside a body is an error
    ensures match res {
        Ok(v) => spec_stream(remaining(old(reader))) == Some(v@),
        Err(_) => spec_stream(remaining(old(reader))) is None,
    }
@entry
    let ghost start = remaining(reader);
    let ghost mut cur = start;
    proof { lemma_prepend_empty(spec_stream(start)); }
@loop 0 header
    invariant_except_break
        cur == remaining(reader),
    invariant
        start == remaining(old(reader)),
        spec_stream(start) == prepend(messages@, spec_stream(cur)),
    ensures
        cur.len() < 28,
    decreases remaining(reader).len()
@loop 0 body-entry
    let ghost msgs0 = messages@;
    let ghost body = remaining(reader);
    assert(body == cur.skip(28));
    assert(spec_contents(spec_type(header.message_type), body) is None ==> spec_stream(cur) is None);
@loop 0 body-exit
    proof {
        let p = spec_contents(spec_type(header.message_type), body).unwrap();
        let m = Message { header, contents };
        let tail = spec_stream(body.skip(p.1 as int));
        assert(spec_stream(cur) == prepend(seq![m], tail));
        lemma_prepend_assoc(msgs0, m, tail);
        cur = remaining(reader);
    }
