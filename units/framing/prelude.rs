// ---- opaque stand-ins for the message bodies decoded elsewhere (their decoders are contracts here) ----
mod bincode { #[verifier::external_body] pub struct Error { _p: () } }
mod rda_status_data { #[verifier::external_body] pub struct Message { _p: () } }
mod volume_coverage_pattern { #[verifier::external_body] pub struct Message { _p: () } }
mod digital_radar_data { #[verifier::external_body] pub struct Message { _p: () } }
mod clutter_filter_map { #[verifier::external_body] pub struct Message { _p: () } }

global layout MessageHeader is size == 28, align == 4;

// ICD 2620002 Table II (message header) — byte offsets inside the 28-byte header (12 RPG bytes first).
// The same table is asserted on the real serde/bincode path by the Kani harness c10_layout_message_header.
impl Wire for MessageHeader {
    closed spec fn wire_len() -> nat { 28 }
    closed spec fn parse(b: Seq<u8>) -> Self {
        MessageHeader {
            rpg_unknown: arr12(b),
            segment_size: be16(b, 12),
            redundant_channel: b[14],
            message_type: b[15],
            sequence_number: be16(b, 16),
            date: be16(b, 18),
            time: be32u(b, 20),
            segment_count: be16(b, 24),
            segment_number: be16(b, 26),
        }
    }
}
pub uninterp spec fn arr12(b: Seq<u8>) -> [u8; 12];

// ICD Table I message-type codes, written from the ICD numbering
spec fn spec_type(c: u8) -> MessageType {
    if c == 1 { MessageType::RDADigitalRadarData }
    else if c == 2 { MessageType::RDAStatusData }
    else if c == 3 { MessageType::RDAPerformanceMaintenanceData }
    else if c == 4 { MessageType::RDAConsoleMessage }
    else if c == 5 { MessageType::RDAVolumeCoveragePattern }
    else if c == 6 { MessageType::RDAControlCommands }
    else if c == 7 { MessageType::RPGVolumeCoveragePattern }
    else if c == 8 { MessageType::RPGClutterCensorZones }
    else if c == 9 { MessageType::RPGRequestForData }
    else if c == 10 { MessageType::RPGConsoleMessage }
    else if c == 11 { MessageType::RDALoopBackTest }
    else if c == 12 { MessageType::RPGLoopBackTest }
    else if c == 13 { MessageType::RDAClutterFilterBypassMap }
    else if c == 14 { MessageType::Spare1 }
    else if c == 15 { MessageType::RDAClutterFilterMap }
    else if c == 16 { MessageType::ReservedFAARMSOnly1 }
    else if c == 17 { MessageType::ReservedFAARMSOnly2 }
    else if c == 18 { MessageType::RDAAdaptationData }
    else if c == 20 { MessageType::Reserved1 }
    else if c == 21 { MessageType::Reserved2 }
    else if c == 22 { MessageType::Reserved3 }
    else if c == 23 { MessageType::Reserved4 }
    else if c == 24 { MessageType::ReservedFAARMSOnly3 }
    else if c == 25 { MessageType::ReservedFAARMSOnly4 }
    else if c == 26 { MessageType::ReservedFAARMSOnly5 }
    else if c == 29 { MessageType::Reserved5 }
    else if c == 31 { MessageType::RDADigitalRadarDataGenericFormat }
    else if c == 32 { MessageType::RDAPRFData }
    else if c == 33 { MessageType::RDALogData }
    else { MessageType::Unknown(c) }
}

// ---- contracts of the body decoders (units vcp_decode / Kani harnesses decide them) ----------------
uninterp spec fn spec_rda(b: Seq<u8>) -> Option<rda_status_data::Message>;
uninterp spec fn spec_vcp(b: Seq<u8>) -> Option<volume_coverage_pattern::Message>;
// value and number of bytes consumed.  ASSUMED for type 31: on Ok the reader ends `len` bytes after the
// start (for a contiguous layout in pointer order, the message length) — checked only by the bounded
// Kani routing harnesses (reader-position assertions).
uninterp spec fn spec_drd(b: Seq<u8>) -> Option<(digital_radar_data::Message, nat)>;

#[verifier::external_body]
fn decode_rda_status_message<R: Read>(reader: &mut R) -> (res: Result<rda_status_data::Message>)
    ensures match res { Ok(v) => spec_rda(remaining(old(reader))) == Some(v), Err(_) => spec_rda(remaining(old(reader))) is None }
{ unimplemented!() }
#[verifier::external_body]
fn decode_volume_coverage_pattern<R: Read>(reader: &mut R) -> (res: Result<volume_coverage_pattern::Message>)
    ensures match res { Ok(v) => spec_vcp(remaining(old(reader))) == Some(v), Err(_) => spec_vcp(remaining(old(reader))) is None }
{ unimplemented!() }
#[verifier::external_body]
fn decode_digital_radar_data<R: Read + Seek>(reader: &mut R) -> (res: Result<digital_radar_data::Message>)
    ensures match res {
        Ok(v) => spec_drd(remaining(old(reader))) matches Some(p) && p.0 == v && p.1 <= remaining(old(reader)).len()
            && remaining(final(reader)) == remaining(old(reader)).skip(p.1 as int),
        Err(_) => spec_drd(remaining(old(reader))) is None,
    }
{ unimplemented!() }

// ---- the property's spec (C03), written from the statement ---------------------------------------
// contents of one message of type `ty` at the head of `b`, and how many body bytes it occupies
spec fn spec_contents(ty: MessageType, b: Seq<u8>) -> Option<(MessageContents, nat)> {
    if ty == MessageType::RDADigitalRadarDataGenericFormat {
        match spec_drd(b) { Some(p) => Some((MessageContents::DigitalRadarData(Box::new(p.0)), p.1)), None => None }
    } else if b.len() < 2404 {
        None     // stream cut inside a fixed 2432-byte frame
    } else if ty == MessageType::RDAStatusData {
        match spec_rda(b.take(2404)) { Some(v) => Some((MessageContents::RDAStatusData(Box::new(v)), 2404nat)), None => None }
    } else if ty == MessageType::RDAVolumeCoveragePattern {
        match spec_vcp(b.take(2404)) { Some(v) => Some((MessageContents::VolumeCoveragePattern(Box::new(v)), 2404nat)), None => None }
    } else {
        Some((MessageContents::Other, 2404nat))   // no dedicated decoder: exactly one frame, opaque placeholder
    }
}

spec fn spec_stream(b: Seq<u8>) -> Option<Seq<Message>>
    decreases b.len()
{
    if b.len() < 28 { Some(Seq::empty()) } else {   // trailing fragment shorter than a header is ignored
        let h = MessageHeader::parse(b.take(28));
        match spec_contents(spec_type(h.message_type), b.skip(28)) {
            None => None,
            Some(p) => if p.1 <= b.skip(28).len() {
                match spec_stream(b.skip(28).skip(p.1 as int)) {
                    None => None,
                    Some(rest) => Some(seq![Message { header: h, contents: p.0 }] + rest),
                }
            } else { None }
        }
    }
}

spec fn prepend(ms: Seq<Message>, tail: Option<Seq<Message>>) -> Option<Seq<Message>> {
    match tail { Some(t) => Some(ms + t), None => None }
}

proof fn lemma_prepend_assoc(ms: Seq<Message>, m: Message, t: Option<Seq<Message>>)
    ensures prepend(ms, prepend(seq![m], t)) == prepend(ms.push(m), t)
{
    match t { Some(x) => { assert(ms + (seq![m] + x) =~= ms.push(m) + x); }, None => {} }
}

proof fn lemma_prepend_empty(t: Option<Seq<Message>>)
    ensures prepend(Seq::empty(), t) == t
{
    match t { Some(x) => { assert(Seq::<Message>::empty() + x =~= x); }, None => {} }
}

// C03 corollaries, proved from spec_stream (so they hold of the real decode_messages by its postcondition):
// (a) a stream of n whole fixed-length frames of non-decoded types yields n messages
// (b) the k-th message's header is the header parsed at its own offset
proof fn lemma_stream_one_frame(b: Seq<u8>)
    requires b.len() >= 28,
             spec_contents(spec_type(MessageHeader::parse(b.take(28)).message_type), b.skip(28)) matches Some(p)
                && p.1 <= b.skip(28).len() && spec_stream(b.skip(28).skip(p.1 as int)) is Some,
    ensures spec_stream(b) is Some,
            spec_stream(b)->Some_0.len() == 1 + spec_stream(b.skip(28).skip(
                spec_contents(spec_type(MessageHeader::parse(b.take(28)).message_type), b.skip(28))->Some_0.1 as int))->Some_0.len(),
            spec_stream(b)->Some_0[0].header == MessageHeader::parse(b.take(28)),
{}
