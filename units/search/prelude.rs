mod result {
    pub enum Error { X }
    pub type Result<T> = std::result::Result<T, Error>;
}
use result::Result;
type V = u64;

pub assume_specification<T, A: core::alloc::Allocator> [ VecDeque::<T, A>::is_empty ] (v: &VecDeque<T, A>) -> (r: bool)
    ensures r == (v@.len() == 0);

// Option<&u64> ordering: None < Some(_), Some compared by value
spec fn opt_val(o: Option<&V>) -> Option<V> { match o { Some(x) => Some(*x), None => None } }
spec fn olt(a: Option<V>, b: Option<V>) -> bool {
    match (a, b) { (None, None) => false, (None, Some(_)) => true, (Some(_), None) => false, (Some(x), Some(y)) => x < y }
}
spec fn ssr(first: Option<V>, value: Option<V>, target: Option<V>) -> bool {
    let first_wrapped = olt(value, first);
    let target_wrapped = olt(target, first);
    if olt(value, target) { !first_wrapped || target_wrapped } else { first_wrapped && !target_wrapped }
}

// the value the closure yields at index i (it is a function of the index by the precondition)
spec fn at<F: Fn(usize) -> Result<Option<V>>>(f: F, i: int) -> Option<V> {
    let r = choose|r: Result<Option<V>>| #[trigger] f.ensures((i as usize,), r);
    match r { Ok(o) => o, Err(_) => None }
}

proof fn lemma_at<F: Fn(usize) -> Result<Option<V>>>(f: F, i: usize, v: Option<V>)
    requires f.ensures((i,), Ok(v)),
             forall|j: usize, r1: Result<Option<V>>, r2: Result<Option<V>>| f.ensures((j,), r1) && f.ensures((j,), r2) ==> r1 == r2,
    ensures at(f, i as int) == v
{
    let r = choose|r: Result<Option<V>>| #[trigger] f.ensures((i as int as usize,), r);
    assert(f.ensures((i as int as usize,), r));
    assert(r == Ok::<Option<V>, result::Error>(v));
}

// `nearest` is the best candidate considered so far
spec fn best_so_far<F: Fn(usize) -> Result<Option<V>>>(f: F, n: int, target: V, nearest: Option<usize>, nearest_value: Option<V>, considered: Set<int>) -> bool {
    &&& forall|j: int| considered.contains(j) ==> 0 <= j < n
    &&& match nearest {
        Some(i) => i < n && considered.contains(i as int) && nearest_value is Some && at(f, i as int) == nearest_value
            && nearest_value->Some_0 <= target
            && forall|j: int| considered.contains(j) && at(f, j) is Some && at(f, j)->Some_0 <= target
                    ==> at(f, j)->Some_0 <= nearest_value->Some_0,
        None => nearest_value is None
            && forall|j: int| considered.contains(j) ==> (at(f, j) is None || at(f, j)->Some_0 > target),
    }
}

spec fn result_ok<F: Fn(usize) -> Result<Option<V>>>(f: F, n: int, target: V, o: Option<usize>, considered: Set<int>) -> bool {
    &&& forall|j: int| considered.contains(j) ==> 0 <= j < n
    &&& match o {
        Some(i) => i < n && at(f, i as int) is Some && at(f, i as int)->Some_0 <= target
            && forall|j: int| considered.contains(j) && at(f, j) is Some && at(f, j)->Some_0 <= target
                    ==> at(f, j)->Some_0 <= at(f, i as int)->Some_0,
        None => forall|j: int| considered.contains(j) ==> (at(f, j) is None || at(f, j)->Some_0 > target),
    }
}

// BFS termination measure: 3 per element of a queued interval, 1 per empty interval
spec fn iw(x: (usize, usize)) -> int { if x.0 <= x.1 { 3 * (x.1 - x.0 + 1) } else { 1 } }
spec fn queue_weight(q: Seq<(usize, usize)>) -> int
    decreases q.len()
{
    if q.len() == 0 { 0 } else { queue_weight(q.drop_last()) + iw(q.last()) }
}
proof fn lemma_weight_nonneg(q: Seq<(usize, usize)>)
    ensures queue_weight(q) >= 0
    decreases q.len()
{
    if q.len() > 0 { lemma_weight_nonneg(q.drop_last()); }
}
proof fn lemma_weight_front(q: Seq<(usize, usize)>)
    requires q.len() > 0
    ensures queue_weight(q) == iw(q.first()) + queue_weight(q.drop_first())
    decreases q.len()
{
    if q.len() == 1 {
        assert(q.drop_last() =~= Seq::<(usize, usize)>::empty());
        assert(q.drop_first() =~= Seq::<(usize, usize)>::empty());
    } else {
        lemma_weight_front(q.drop_last());
        assert(q.drop_last().drop_first() =~= q.drop_first().drop_last());
        assert(q.drop_first().last() == q.last());
        assert(q.drop_last().first() == q.first());
    }
}

pub assume_specification<T, const N: usize> [ <VecDeque<T> as From<[T; N]>>::from ] (a: [T; N]) -> (r: VecDeque<T>)
    ensures r@ == a@;
