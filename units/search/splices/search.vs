@sig ret=res
    requires
        element_count <= usize::MAX / 2,   // `(start + end) / 2` is computed in usize
        forall|i: usize| i < element_count ==> f.requires((i,)),
        // the closure is a function of the index (single-task sequentialisation, R-async)
        forall|i: usize, r1: Result<Option<V>>, r2: Result<Option<V>>| f.ensures((i,), r1) && f.ensures((i,), r2) ==> r1 == r2,
    ensures
        // C15 (all sizes): every probe is in range, both loops terminate, no arithmetic overflow (by the proof);
        // the returned index is a populated entry not above the target and the best of every candidate the
        // search considered — the candidate only ever improves; none only if no candidate qualified
        res matches Ok(o) ==> exists|considered: Set<int>| result_ok(f, element_count as int, target, o, considered),
@entry
    let ghost mut considered: Set<int> = Set::empty();
    proof { assert(result_ok(f, element_count as int, target, None, Set::<int>::empty())); }
@after "let mut first_value = f(0)"
    proof {
        lemma_at(f, 0, first_value);
        if first_value == Some(target) { assert(result_ok(f, element_count as int, target, Some(0usize), Set::<int>::empty().insert(0))); }
    }
@loop 0 header
    invariant_except_break
        low == 0 && high == element_count,
    invariant
        element_count > 0,
        forall|i: usize| i < element_count ==> f.requires((i,)),
        forall|i: usize, r1: Result<Option<V>>, r2: Result<Option<V>>| f.ensures((i,), r1) && f.ensures((i,), r2) ==> r1 == r2,
        some_target == Some(&target),
        low <= high <= element_count,
        best_so_far(f, element_count as int, target, nearest, nearest_value, considered),
        element_count <= usize::MAX / 2,
        forall|q: int| 0 <= q < queue@.len() ==> (#[trigger] queue@[q]).1 < element_count,
        // termination: total weight of the queued intervals (3 per element, 1 per empty interval) decreases
    ensures
        low <= element_count && high <= element_count,
    decreases queue_weight(queue@)
@before "if start"
    proof { lemma_weight_front(old_q); assert(old_q.drop_first() == queue@); assert(old_q.first() == (start, end)); }
@before "continue" nth=0
    proof { lemma_weight_nonneg(queue@); }
@before "continue" nth=1
    proof {
        lemma_weight_nonneg(queue@);
        assert(q2.last() == (((mid + 1) as usize), end));
        assert(queue_weight(q2) == queue_weight(q1) + iw(((mid + 1) as usize, end)));
        if mid > 0 {
            assert(queue@.last() == (start, ((mid - 1) as usize)));
            assert(queue_weight(queue@) == queue_weight(q2) + iw((start, (mid - 1) as usize)));
        }
        assert(queue_weight(queue@) < queue_weight(old_q));
    }
@before "queue.push_back((mid + 1, end))"
    let ghost q1 = queue@;
@after "queue.push_back((mid + 1, end))"
    let ghost q2 = queue@;
    proof { assert(q2.drop_last() == q1); }
@after "queue.push_back((start, mid - 1))"
    proof { assert(queue@.drop_last() == q2); }
@before "if mid_value_ref == some_target"
    proof { considered = considered.insert(mid as int); }
@before "if value_ref == some_target"
    proof { considered = considered.insert(mid as int); }
@before "if let Some((start, end)) = queue.pop_front()"
    let ghost old_q = queue@;
@after "let mid_value = f(mid)"
    proof { lemma_at(f, mid, mid_value); }
@after "let value = f(mid)"
    proof { lemma_at(f, mid, value); }
@loop 1 header
    invariant
        element_count > 0,
        forall|i: usize| i < element_count ==> f.requires((i,)),
        forall|i: usize, r1: Result<Option<V>>, r2: Result<Option<V>>| f.ensures((i,), r1) && f.ensures((i,), r2) ==> r1 == r2,
        some_target == Some(&target),
        low <= high <= element_count,
        best_so_far(f, element_count as int, target, nearest, nearest_value, considered),
    decreases high - low
@before "return Ok(nearest)" nth=0
    proof { assert(result_ok(f, element_count as int, target, nearest, considered)); }
@before "return Ok(nearest)" nth=1
    proof { assert(result_ok(f, element_count as int, target, nearest, considered)); }
@before "return Ok(Some(mid))"
    proof { assert(result_ok(f, element_count as int, target, Some(mid), considered)); }
@tail
    proof { assert(result_ok(f, element_count as int, target, nearest, considered)); }
