@sig ret=r
    ensures r == ssr(opt_val(first), opt_val(value), opt_val(target))
