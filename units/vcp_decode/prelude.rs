mod bincode { #[verifier::external_body] pub struct Error { _p: () } }

pub uninterp spec fn f32_from_bits(x: u32) -> f32;
pub uninterp spec fn bytes_at<const N: usize>(b: Seq<u8>, o: int) -> [u8; N];
pub uninterp spec fn u16s_at<const N: usize>(b: Seq<u8>, o: int) -> [u16; N];

// the i-th cut block: the 46-byte window right after the 22-byte header and i earlier blocks
spec fn cut_at(b: Seq<u8>, i: int) -> ElevationDataBlock {
    ElevationDataBlock::parse(b.subrange(22 + 46 * i, 22 + 46 * (i + 1)))
}
spec fn vcp_len(b: Seq<u8>) -> int { 22 + 46 * Header::parse(b.take(22)).number_of_elevation_cuts }
// the declared structure fits the available bytes
spec fn vcp_fits(b: Seq<u8>) -> bool { b.len() >= 22 && b.len() >= vcp_len(b) }
spec fn vcp_ok(b: Seq<u8>, m: Message) -> bool {
    &&& vcp_fits(b)
    &&& m.header == Header::parse(b.take(22))
    &&& m.elevations@.len() == m.header.number_of_elevation_cuts
    &&& forall|i: int| 0 <= i < m.elevations@.len() ==> #[trigger] m.elevations@[i] == cut_at(b, i)
}
