@sig ret=r
    ensures r.header == header, r.elevations == elevations
