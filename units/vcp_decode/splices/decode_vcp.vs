@sig ret=res
    // C11: header, then exactly the declared number of 46-byte cut blocks taken from consecutive windows; a
    // declared count that does not fit the available bytes is an error; total for all counts 0..=65535 (C04)
    ensures match res {
        Ok(m) => vcp_ok(remaining(old(reader)), m)
            && remaining(final(reader)) == remaining(old(reader)).skip(vcp_len(remaining(old(reader)))),
        Err(_) => !vcp_fits(remaining(old(reader))),
    }
@entry
    let ghost b = remaining(reader);
@loop 0 header iter=it
    invariant
        b == remaining(old(reader)),
        b.len() >= 22,
        header == Header::parse(b.take(22)),
        it.snapshot@.start == 0 && it.snapshot@.end == header.number_of_elevation_cuts,
        elevations@.len() == it.history@.len(),
        b.len() >= 22 + 46 * it.history@.len(),
        remaining(reader) == b.skip(22 + 46 * (it.history@.len() as int)),
        forall|i: int| 0 <= i < elevations@.len() ==> #[trigger] elevations@[i] == cut_at(b, i),
@loop 0 body-entry
    let ghost k = elevations@.len() as int;
    let ghost before = elevations@;
@loop 0 body-exit
    proof {
        assert(b.skip(22 + 46 * k).take(46) =~= b.subrange(22 + 46 * k, 22 + 46 * (k + 1)));
        assert(b.skip(22 + 46 * k).skip(46) =~= b.skip(22 + 46 * (k + 1)));
        assert(elevations@ == before.push(cut_at(b, k)));
    }
