// generated from tools/wire.py (VcpHeader, ICD Table XI (halfwords 1-11))
impl Wire for Header {
    closed spec fn wire_len() -> nat { 22 }
    closed spec fn parse(b: Seq<u8>) -> Self {
        Header {
            message_size: be16(b, 0),
            pattern_type: be16(b, 2),
            pattern_number: be16(b, 4),
            number_of_elevation_cuts: be16(b, 6),
            version: b[8],
            clutter_map_group_number: b[9],
            doppler_velocity_resolution: b[10],
            pulse_width: b[11],
            reserved_1: be32u(b, 12),
            vcp_sequencing: be16(b, 16),
            vcp_supplemental_data: be16(b, 18),
            reserved_2: be16(b, 20),
        }
    }
}

// generated from tools/wire.py (VcpElevation, ICD Table XI (E1-E23))
impl Wire for ElevationDataBlock {
    closed spec fn wire_len() -> nat { 46 }
    closed spec fn parse(b: Seq<u8>) -> Self {
        ElevationDataBlock {
            elevation_angle: be16(b, 0),
            channel_configuration: b[2],
            waveform_type: b[3],
            super_resolution_control: b[4],
            surveillance_prf_number: b[5],
            surveillance_prf_pulse_count_radial: be16(b, 6),
            azimuth_rate: be16(b, 8),
            reflectivity_threshold: be16(b, 10) as i16,
            velocity_threshold: be16(b, 12) as i16,
            spectrum_width_threshold: be16(b, 14) as i16,
            differential_reflectivity_threshold: be16(b, 16) as i16,
            differential_phase_threshold: be16(b, 18) as i16,
            correlation_coefficient_threshold: be16(b, 20) as i16,
            sector_1_edge_angle: be16(b, 22),
            sector_1_doppler_prf_number: be16(b, 24),
            sector_1_doppler_prf_pulse_count_radial: be16(b, 26),
            supplemental_data: be16(b, 28),
            sector_2_edge_angle: be16(b, 30),
            sector_2_doppler_prf_number: be16(b, 32),
            sector_2_doppler_prf_pulse_count_radial: be16(b, 34),
            ebc_angle: be16(b, 36),
            sector_3_edge_angle: be16(b, 38),
            sector_3_doppler_prf_number: be16(b, 40),
            sector_3_doppler_prf_pulse_count_radial: be16(b, 42),
            reserved: be16(b, 44),
        }
    }
}
