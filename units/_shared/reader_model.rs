// ---- the reader model (assumption about std::io, DESIGN.md 2.1) -----------------------------------
// `remaining(r)`: the bytes a reader has not yet consumed.  All decoders of /repo are generic in R: Read
// (+ Seek) and use nothing of R but read_exact (directly or through bincode), stream_position and seek.
use std::io::{Read, Seek};

pub uninterp spec fn remaining<R: ?Sized>(r: &R) -> Seq<u8>;

#[verifier::external_type_specification]
#[verifier::external_body]
pub struct ExIoError(std::io::Error);

#[verifier::external_trait_specification]
pub trait ExRead {
    type ExternalTraitSpecificationFor: std::io::Read;
    fn read_exact(&mut self, buf: &mut [u8]) -> (res: std::io::Result<()>)
        ensures
            match res {
                Ok(v) => remaining(old(self)).len() >= old(buf)@.len()
                    && final(buf)@ == remaining(old(self)).take(old(buf)@.len() as int)
                    && remaining(final(self)) == remaining(old(self)).skip(old(buf)@.len() as int),
                Err(_) => remaining(old(self)).len() < old(buf)@.len(),
            };
}
#[verifier::external_trait_specification]
pub trait ExSeek {
    type ExternalTraitSpecificationFor: std::io::Seek;
}

// a `&[u8]` used as a reader: what remains is the slice itself
pub broadcast axiom fn slice_reader_remaining(r: &&[u8])
    ensures #[trigger] remaining(r) == (*r)@;

pub assume_specification<T, const N: usize> [<[T; N] as std::convert::AsRef<[T]>>::as_ref] (a: &[T; N]) -> (r: &[T])
    ensures r@ == a@;

// ---- fixed-size wire structs: util::deserialize::<R, S> reads exactly S::wire_len() bytes, big-endian,
// fields in declaration order.  TRUSTED HERE, PROVED PER STRUCT BY KANI (layout harnesses run the real
// serde/bincode stack on all byte values and check the same offsets and the same consumed length).
pub trait Wire: Sized {
    spec fn wire_len() -> nat;
    spec fn parse(b: Seq<u8>) -> Self;
}

pub open spec fn be16(b: Seq<u8>, o: int) -> u16 { (b[o] as u16 * 256 + b[o + 1] as u16) as u16 }
pub open spec fn be32u(b: Seq<u8>, o: int) -> u32 {
    (b[o] as u32 * 16777216 + b[o + 1] as u32 * 65536 + b[o + 2] as u32 * 256 + b[o + 3] as u32) as u32
}

#[verifier::external_body]
fn deserialize<R: Read, S: Wire>(reader: &mut R) -> (res: Result<S>)
    ensures match res {
        Ok(v) => remaining(old(reader)).len() >= S::wire_len()
            && v == S::parse(remaining(old(reader)).take(S::wire_len() as int))
            && remaining(final(reader)) == remaining(old(reader)).skip(S::wire_len() as int),
        Err(_) => remaining(old(reader)).len() < S::wire_len(),
    }
{ unimplemented!() }
