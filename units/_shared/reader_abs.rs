// ---- the reader model with absolute positions (for the seeking type-31 decoder) -----------------------------------
// ASSUMPTION about std::io for the readers /repo instantiates (Cursor<&[u8]>): a reader is a byte string `rwhole`
// and a position `rpos`; read_exact copies and advances or fails when fewer bytes remain; stream_position reports
// the position; seek(Start(n)) moves to n (seeking past the end is allowed), seek(Current(d)) moves by d and fails
// when the result would be negative.  Nothing else of R is used by the decoder.
use std::io::{Read, Seek, SeekFrom};

pub uninterp spec fn rwhole<R: ?Sized>(r: &R) -> Seq<u8>;
pub uninterp spec fn rpos<R: ?Sized>(r: &R) -> int;
pub open spec fn remaining<R: ?Sized>(r: &R) -> Seq<u8> {
    if 0 <= rpos(r) <= rwhole(r).len() { rwhole(r).skip(rpos(r)) } else { Seq::empty() }
}

#[verifier::external_type_specification]
#[verifier::external_body]
pub struct ExIoError(std::io::Error);

#[verifier::external_type_specification]
pub struct ExSeekFrom(std::io::SeekFrom);

#[verifier::external_trait_specification]
pub trait ExRead {
    type ExternalTraitSpecificationFor: std::io::Read;
    fn read_exact(&mut self, buf: &mut [u8]) -> (res: std::io::Result<()>)
        ensures
            rwhole(final(self)) == rwhole(old(self)),
            match res {
                Ok(v) => remaining(old(self)).len() >= old(buf)@.len()
                    && final(buf)@ == remaining(old(self)).take(old(buf)@.len() as int)
                    && rpos(final(self)) == rpos(old(self)) + old(buf)@.len(),
                Err(_) => remaining(old(self)).len() < old(buf)@.len(),
            };
}
#[verifier::external_trait_specification]
pub trait ExSeek {
    type ExternalTraitSpecificationFor: std::io::Seek;
    fn seek(&mut self, pos: std::io::SeekFrom) -> (res: std::io::Result<u64>)
        ensures
            rwhole(final(self)) == rwhole(old(self)),
            match pos {
                // Cursor semantics: an absolute seek always succeeds (also past the end); a relative seek fails exactly
                // when the new position would be negative
                std::io::SeekFrom::Start(n) => res is Ok && rpos(final(self)) == n,
                std::io::SeekFrom::Current(d) => (res is Ok <==> rpos(old(self)) + d >= 0)
                    && (res is Ok ==> rpos(final(self)) == rpos(old(self)) + d),
                _ => true,
            };
    fn stream_position(&mut self) -> (res: std::io::Result<u64>)
        ensures
            rwhole(final(self)) == rwhole(old(self)), rpos(final(self)) == rpos(old(self)),
            res matches Ok(p) && p == rpos(old(self));
}

// ---- fixed-size wire structs (as in reader_wire.rs, with positions) -------------------------------------------------
pub trait Wire: Sized {
    spec fn wire_len() -> nat;
    spec fn parse(b: Seq<u8>) -> Self;
}
pub open spec fn be16(b: Seq<u8>, o: int) -> u16 { (b[o] as u16 * 256 + b[o + 1] as u16) as u16 }
pub open spec fn be32u(b: Seq<u8>, o: int) -> u32 {
    (b[o] as u32 * 16777216 + b[o + 1] as u32 * 65536 + b[o + 2] as u32 * 256 + b[o + 3] as u32) as u32
}

// TRUSTED HERE, PROVED PER STRUCT BY THE KANI LAYOUT HARNESSES (real serde/bincode stack, all byte values)
#[verifier::external_body]
fn deserialize<R: Read, S: Wire>(reader: &mut R) -> (res: Result<S>)
    ensures
        rwhole(final(reader)) == rwhole(old(reader)),
        match res {
            Ok(v) => remaining(old(reader)).len() >= S::wire_len()
                && v == S::parse(remaining(old(reader)).take(S::wire_len() as int))
                && rpos(final(reader)) == rpos(old(reader)) + S::wire_len(),
            Err(_) => remaining(old(reader)).len() < S::wire_len(),
        }
{ unimplemented!() }
