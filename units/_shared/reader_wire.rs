// ---- fixed-size wire structs: util::deserialize::<R, S> reads exactly S::wire_len() bytes, big-endian,
// fields in declaration order.  TRUSTED HERE, PROVED PER STRUCT BY KANI (layout harnesses run the real
// serde/bincode stack on all byte values and check the same offsets and the same consumed length).
pub trait Wire: Sized {
    spec fn wire_len() -> nat;
    spec fn parse(b: Seq<u8>) -> Self;
}

pub open spec fn be16(b: Seq<u8>, o: int) -> u16 { (b[o] as u16 * 256 + b[o + 1] as u16) as u16 }
pub open spec fn be32u(b: Seq<u8>, o: int) -> u32 {
    (b[o] as u32 * 16777216 + b[o + 1] as u32 * 65536 + b[o + 2] as u32 * 256 + b[o + 3] as u32) as u32
}

#[verifier::external_body]
fn deserialize<R: Read, S: Wire>(reader: &mut R) -> (res: Result<S>)
    ensures match res {
        Ok(v) => remaining(old(reader)).len() >= S::wire_len()
            && v == S::parse(remaining(old(reader)).take(S::wire_len() as int))
            && remaining(final(reader)) == remaining(old(reader)).skip(S::wire_len() as int),
        Err(_) => remaining(old(reader)).len() < S::wire_len(),
    }
{ unimplemented!() }
