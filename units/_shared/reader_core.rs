// ---- the reader model (assumption about std::io, DESIGN.md 2.1) -----------------------------------
// `remaining(r)`: the bytes a reader has not yet consumed.  All decoders of /repo are generic in R: Read
// (+ Seek) and use nothing of R but read_exact (directly or through bincode), stream_position and seek.
use std::io::{Read, Seek};

pub uninterp spec fn remaining<R: ?Sized>(r: &R) -> Seq<u8>;

#[verifier::external_type_specification]
#[verifier::external_body]
pub struct ExIoError(std::io::Error);

#[verifier::external_trait_specification]
pub trait ExRead {
    type ExternalTraitSpecificationFor: std::io::Read;
    fn read_exact(&mut self, buf: &mut [u8]) -> (res: std::io::Result<()>)
        ensures
            match res {
                Ok(v) => remaining(old(self)).len() >= old(buf)@.len()
                    && final(buf)@ == remaining(old(self)).take(old(buf)@.len() as int)
                    && remaining(final(self)) == remaining(old(self)).skip(old(buf)@.len() as int),
                Err(_) => remaining(old(self)).len() < old(buf)@.len(),
            };
}
#[verifier::external_type_specification]
pub struct ExSeekFrom(std::io::SeekFrom);

#[verifier::external_trait_specification]
pub trait ExSeek {
    type ExternalTraitSpecificationFor: std::io::Seek;
    // relative forward seeks only move the cursor: what remains afterwards is what remained minus the skipped
    // bytes; seeking past the end is allowed and leaves nothing (Cursor / File semantics). Other seeks: unspecified.
    fn seek(&mut self, pos: std::io::SeekFrom) -> (res: std::io::Result<u64>)
        ensures
            match pos {
                std::io::SeekFrom::Current(n) => (n >= 0 && res is Ok) ==>
                    remaining(final(self)) == (if n <= remaining(old(self)).len() { remaining(old(self)).skip(n as int) } else { Seq::<u8>::empty() }),
                _ => true,
            };
    fn stream_position(&mut self) -> (res: std::io::Result<u64>)
        ensures remaining(final(self)) == remaining(old(self));
}

// a `&[u8]` used as a reader: what remains is the slice itself
pub broadcast axiom fn slice_reader_remaining(r: &&[u8])
    ensures #[trigger] remaining(r) == (*r)@;

pub assume_specification<T, const N: usize> [<[T; N] as std::convert::AsRef<[T]>>::as_ref] (a: &[T; N]) -> (r: &[T])
    ensures r@ == a@;

