use vstd::std_specs::iter::IteratorSpec;
use nexrad_decode::messages::volume_coverage_pattern::ElevationDataBlock;

// chunks a cut spans: six at half-degree azimuth resolution (bit 0 of the control byte), otherwise three
spec fn width(c: ElevationDataBlock) -> int { if c.super_resolution_control & 1 == 1 { 6 } else { 3 } }

spec fn width_sum(cuts: Seq<ElevationDataBlock>, n: int) -> int
    decreases n
{
    if n <= 0 { 0 } else { width_sum(cuts, n - 1) + width(cuts[n - 1]) }
}

// first cut index >= i whose cumulative last chunk (acc + width) reaches seq
spec fn cut_from(seq: int, cuts: Seq<ElevationDataBlock>, i: int, acc: int) -> Option<int>
    decreases cuts.len() - i
{
    if i >= cuts.len() || i < 0 { None }
    else if seq <= acc + width(cuts[i]) { Some(i) }
    else { cut_from(seq, cuts, i + 1, acc + width(cuts[i])) }
}

// the property's mapping: chunk 1 is metadata; chunk s > 1 belongs to the first cut i with
// s <= 1 + sum of widths of cuts 0..=i
spec fn cut_of(seq: int, cuts: Seq<ElevationDataBlock>) -> Option<int> {
    if seq <= 1 { None } else { cut_from(seq, cuts, 0, 1) }
}

proof fn lemma_cut_from_unfold(seq: int, cuts: Seq<ElevationDataBlock>, i: int, acc: int)
    ensures cut_from(seq, cuts, i, acc) == (
        if i >= cuts.len() || i < 0 { None::<int> }
        else if seq <= acc + width(cuts[i]) { Some(i) }
        else { cut_from(seq, cuts, i + 1, acc + width(cuts[i])) })
{}
proof fn lemma_width_sum_step(cuts: Seq<ElevationDataBlock>, i: int)
    requires 0 <= i
    ensures width_sum(cuts, i + 1) == width_sum(cuts, i) + width(cuts[i])
{}

proof fn lemma_cut_from_lower(s: int, cuts: Seq<ElevationDataBlock>, i: int, acc: int)
    requires 0 <= i
    ensures cut_from(s, cuts, i, acc) is Some ==> i <= cut_from(s, cuts, i, acc)->Some_0 < cuts.len()
    decreases cuts.len() - i
{
    if i < cuts.len() && s > acc + width(cuts[i]) { lemma_cut_from_lower(s, cuts, i + 1, acc + width(cuts[i])); }
}

// C19 monotonicity: a later chunk never maps to an earlier cut, and once none (beyond the last cut) always none
proof fn lemma_cut_from_mono(s1: int, s2: int, cuts: Seq<ElevationDataBlock>, i: int, acc: int)
    requires s1 <= s2, 0 <= i
    ensures
        cut_from(s2, cuts, i, acc) is Some ==> cut_from(s1, cuts, i, acc) is Some
            && cut_from(s1, cuts, i, acc)->Some_0 <= cut_from(s2, cuts, i, acc)->Some_0,
        cut_from(s1, cuts, i, acc) is None ==> cut_from(s2, cuts, i, acc) is None,
    decreases cuts.len() - i
{
    lemma_cut_from_lower(s2, cuts, i, acc);
    if i < cuts.len() && s1 > acc + width(cuts[i]) {
        lemma_cut_from_mono(s1, s2, cuts, i + 1, acc + width(cuts[i]));
    }
}
proof fn lemma_cut_of_mono(s1: int, s2: int, cuts: Seq<ElevationDataBlock>)
    requires 2 <= s1 <= s2
    ensures cut_of(s2, cuts) is Some ==> cut_of(s1, cuts) is Some && cut_of(s1, cuts)->Some_0 <= cut_of(s2, cuts)->Some_0,
            cut_of(s1, cuts) is None ==> cut_of(s2, cuts) is None,
{
    lemma_cut_from_mono(s1, s2, cuts, 0, 1);
}
