@sig ret=r
    // bit 0 of the super-resolution control byte
    ensures r == (self.super_resolution_control & 1 == 1)
