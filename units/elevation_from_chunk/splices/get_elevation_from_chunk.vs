@sig ret=r
    requires sequence >= 1, elevations@.len() <= 0xFFFF
    // C19: chunk 1 maps to no cut; later chunks map to cuts in order, six chunks for a half-degree cut, three
    // for any other; none beyond the last cut
    ensures match r {
        Some(e) => cut_of(sequence as int, elevations@) matches Some(i) && *e == elevations@[i],
        None => cut_of(sequence as int, elevations@) is None,
    }
@before "let mut chunk_count = 1"
    let ghost cuts = elevations@;
@loop 0 header iter=it
    invariant
        sequence > 1,
        cuts == elevations@, cuts.len() <= 0xFFFF,
        it.snapshot@.remaining().len() == cuts.len(),
        forall|k: int| 0 <= k < cuts.len() ==> #[trigger] it.snapshot@.remaining()[k] == &cuts[k],
        chunk_count == 1 + width_sum(cuts, it.history@.len() as int),
        chunk_count <= 1 + 6 * it.history@.len(),
        sequence > chunk_count,
        cut_from(sequence as int, cuts, 0, 1) == cut_from(sequence as int, cuts, it.history@.len() as int, chunk_count as int),
@loop 0 body-entry
    let ghost i = it.history@.len() as int;
    proof { lemma_cut_from_unfold(sequence as int, cuts, i, chunk_count as int); lemma_width_sum_step(cuts, i); }
@tail
    proof { lemma_cut_from_unfold(sequence as int, cuts, cuts.len() as int, chunk_count as int); }
