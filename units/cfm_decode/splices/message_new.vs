@sig ret=r
    ensures r.header == header, r.elevation_segments@.len() == 0
