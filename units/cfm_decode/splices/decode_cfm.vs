@sig ret=res
    // C13: exactly the encoded structure (segments numbered consecutively, 360 azimuth segments numbered
    // 0..=359 each, the declared number of zones per azimuth, every zone from its own 4 bytes, in order);
    // a body that ends before the declared structure is complete is an error.  Total for all inputs (C04).
    ensures match res {
        Ok(m) => cfm_ok(remaining(old(reader)), m)
            && remaining(final(reader)) == remaining(old(reader)).skip(el_walk(remaining(old(reader)), seg_count(remaining(old(reader))) as nat)->Some_0),
        Err(_) => !cfm_fits(remaining(old(reader))),
    }
@entry
    let ghost b = remaining(reader);
@loop 0 header iter=eit
    invariant
        b == remaining(old(reader)),
        b.len() >= 6,
        message.header == Header::parse(b.take(6)),
        elevation_segment_count == seg_count(b),
        eit.snapshot@.start == 0 && eit.snapshot@.end == elevation_segment_count,
        message.elevation_segments@.len() == eit.history@.len(),
        el_walk(b, eit.history@.len()) is Some,
        remaining(reader) == b.skip(el_walk(b, eit.history@.len())->Some_0),
        6 <= el_walk(b, eit.history@.len())->Some_0 <= b.len(),
        forall|e: int| 0 <= e < message.elevation_segments@.len() ==>
            el_ok(b, el_walk(b, e as nat)->Some_0, e, #[trigger] message.elevation_segments@[e]),
@loop 0 body-entry
    let ghost e = eit.history@.len();
    let ghost estart = el_walk(b, e)->Some_0;
    let ghost segs0 = message.elevation_segments@;
    proof { lemma_el_step(b, e); }
@loop 1 header iter=ait
    invariant
        b == remaining(old(reader)),
        e < seg_count(b),
        el_walk(b, e) == Some(estart),
        6 <= estart <= b.len(),
        ait.snapshot@.start == 0 && ait.snapshot@.end == 360,
        elevation_segment.elevation_segment_number == e,
        elevation_segment.azimuth_segments@.len() == ait.history@.len(),
        az_walk(b, estart, ait.history@.len()) is Some,
        remaining(reader) == b.skip(az_walk(b, estart, ait.history@.len())->Some_0),
        estart <= az_walk(b, estart, ait.history@.len())->Some_0 <= b.len(),
        forall|j: int| 0 <= j < elevation_segment.azimuth_segments@.len() ==>
            az_ok(b, az_walk(b, estart, j as nat)->Some_0, j, #[trigger] elevation_segment.azimuth_segments@[j]),
@loop 1 body-entry
    let ghost j = ait.history@.len();
    let ghost o = az_walk(b, estart, j)->Some_0;
    let ghost azs0 = elevation_segment.azimuth_segments@;
    proof { lemma_az_err(b, estart, e, j); }
@before "for _ in 0..range_zone_count"
    proof {
        assert(b.skip(o).take(2) =~= b.subrange(o, o + 2));
        assert(b.skip(o).skip(2) =~= b.skip(o + 2));
        assert(be16(b.subrange(o, o + 2), 0) == be16(b, o));
    }
@loop 2 header iter=zit
    invariant
        b == remaining(old(reader)),
        e < seg_count(b), j < 360,
        el_walk(b, e) == Some(estart),
        az_walk(b, estart, j) == Some(o),
        6 <= o, o + 2 <= b.len(),
        zit.snapshot@.start == 0 && zit.snapshot@.end == range_zone_count,
        range_zone_count == be16(b, o),
        azimuth_segment.header == AzimuthSegmentHeader::parse(b.subrange(o, o + 2)),
        azimuth_segment.azimuth_segment == j,
        azimuth_segment.range_zones@.len() == zit.history@.len(),
        o + 2 + 4 * zit.history@.len() <= b.len(),
        remaining(reader) == b.skip(o + 2 + 4 * (zit.history@.len() as int)),
        forall|k: int| 0 <= k < azimuth_segment.range_zones@.len() ==>
            #[trigger] azimuth_segment.range_zones@[k] == zone_at(b, o, k),
@loop 2 body-entry
    let ghost k = zit.history@.len() as int;
    let ghost zones0 = azimuth_segment.range_zones@;
    proof { lemma_zone_err(b, estart, e, j, o, k); }
@loop 2 body-exit
    proof {
        assert(b.skip(o + 2 + 4 * k).take(4) =~= b.subrange(o + 2 + 4 * k, o + 2 + 4 * k + 4));
        assert(b.skip(o + 2 + 4 * k).skip(4) =~= b.skip(o + 2 + 4 * (k + 1)));
        assert(azimuth_segment.range_zones@ == zones0.push(zone_at(b, o, k)));
    }
@after "elevation_segment.azimuth_segments.push(azimuth_segment)"
    proof {
        lemma_az_step(b, estart, j);
        assert(elevation_segment.azimuth_segments@ == azs0.push(azimuth_segment));
        assert(az_ok(b, o, j as int, azimuth_segment));
    }
@before "message.elevation_segments.push(elevation_segment)"
    proof {
        assert forall|jn: nat| jn < 360 implies #[trigger] az_walk(b, estart, jn) is Some by {
            if az_walk(b, estart, jn) is None { lemma_az_none_mono(b, estart, jn, 360); }
        }
        assert(el_ok(b, estart, e as int, elevation_segment));
    }
@after "message.elevation_segments.push(elevation_segment)"
    proof {
        lemma_el_step(b, e);
        assert(message.elevation_segments@ == segs0.push(elevation_segment));
    }
@before "Ok(message)"
    proof {
        let n = seg_count(b) as nat;
        assert forall|en: nat| en < n implies #[trigger] el_walk(b, en) is Some by {
            if el_walk(b, en) is None { lemma_el_none_mono(b, en, n); }
        }
    }
