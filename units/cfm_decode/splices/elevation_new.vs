@sig ret=r
    ensures r.elevation_segment_number == elevation_segment_number, r.azimuth_segments@.len() == 0
