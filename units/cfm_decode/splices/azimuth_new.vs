@sig ret=r
    ensures r.header == header, r.azimuth_segment == azimuth_segment, r.range_zones@.len() == 0
