// generated from tools/wire.py (CfmHeader, ICD Table XIV (halfwords 1-3))
impl Wire for Header {
    closed spec fn wire_len() -> nat { 6 }
    closed spec fn parse(b: Seq<u8>) -> Self {
        Header {
            map_generation_date: be16(b, 0),
            map_generation_time: be16(b, 2),
            elevation_segment_count: be16(b, 4),
        }
    }
}

// generated from tools/wire.py (AzimuthSegmentHeader, ICD Table XIV)
impl Wire for AzimuthSegmentHeader {
    closed spec fn wire_len() -> nat { 2 }
    closed spec fn parse(b: Seq<u8>) -> Self {
        AzimuthSegmentHeader {
            range_zone_count: be16(b, 0),
        }
    }
}

// generated from tools/wire.py (RangeZone, ICD Table XIV)
impl Wire for RangeZone {
    closed spec fn wire_len() -> nat { 4 }
    closed spec fn parse(b: Seq<u8>) -> Self {
        RangeZone {
            op_code: be16(b, 0),
            end_range: be16(b, 2),
        }
    }
}
