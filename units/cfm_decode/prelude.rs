mod bincode { #[verifier::external_body] pub struct Error { _p: () } }

// number of elevation segments decoded: the header's count field (the decoder keeps its low 8 bits; for the
// property's domain 0..=255 that is the field itself)
spec fn seg_count(b: Seq<u8>) -> u8 { Header::parse(b.take(6)).elevation_segment_count as u8 }

// zone k of the azimuth segment that starts at offset o: 4 bytes after the 2-byte azimuth header and k zones
spec fn zone_at(b: Seq<u8>, o: int, k: int) -> RangeZone {
    RangeZone::parse(b.subrange(o + 2 + 4 * k, o + 2 + 4 * k + 4))
}

// offset after j azimuth segments that start at `start`; None when the bytes end before that
spec fn az_walk(b: Seq<u8>, start: int, j: nat) -> Option<int>
    decreases j
{
    if j == 0 { Some(start) } else {
        match az_walk(b, start, (j - 1) as nat) {
            None => None,
            Some(o) => if o + 2 > b.len() { None } else if o + 2 + 4 * be16(b, o) > b.len() { None }
                       else { Some(o + 2 + 4 * be16(b, o)) },
        }
    }
}

// offset after e elevation segments (6-byte header first); None when the bytes end before that
spec fn el_walk(b: Seq<u8>, e: nat) -> Option<int>
    decreases e
{
    if e == 0 { Some(6) } else {
        match el_walk(b, (e - 1) as nat) { None => None, Some(s) => az_walk(b, s, 360) }
    }
}

// the declared structure is complete within b
spec fn cfm_fits(b: Seq<u8>) -> bool { b.len() >= 6 && el_walk(b, seg_count(b) as nat) is Some }

spec fn az_ok(b: Seq<u8>, o: int, j: int, seg: AzimuthSegment) -> bool {
    &&& seg.azimuth_segment == j
    &&& seg.header == AzimuthSegmentHeader::parse(b.subrange(o, o + 2))
    &&& seg.range_zones@.len() == seg.header.range_zone_count
    &&& forall|k: int| 0 <= k < seg.range_zones@.len() ==> #[trigger] seg.range_zones@[k] == zone_at(b, o, k)
}

spec fn el_ok(b: Seq<u8>, start: int, e: int, seg: ElevationSegment) -> bool {
    &&& seg.elevation_segment_number == e
    &&& seg.azimuth_segments@.len() == 360
    &&& forall|j: int| 0 <= j < 360 ==> az_walk(b, start, j as nat) is Some
            && az_ok(b, az_walk(b, start, j as nat)->Some_0, j, #[trigger] seg.azimuth_segments@[j])
}

spec fn cfm_ok(b: Seq<u8>, m: Message) -> bool {
    &&& cfm_fits(b)
    &&& m.header == Header::parse(b.take(6))
    &&& m.elevation_segments@.len() == seg_count(b)
    &&& forall|e: int| 0 <= e < seg_count(b) ==> el_walk(b, e as nat) is Some
            && el_ok(b, el_walk(b, e as nat)->Some_0, e, #[trigger] m.elevation_segments@[e])
}

// once a walk has run out of bytes it stays out of bytes
proof fn lemma_az_none_mono(b: Seq<u8>, start: int, j: nat, j2: nat)
    requires az_walk(b, start, j) is None, j <= j2
    ensures az_walk(b, start, j2) is None
    decreases j2
{
    if j2 > j { lemma_az_none_mono(b, start, j, (j2 - 1) as nat); }
}
proof fn lemma_el_none_mono(b: Seq<u8>, e: nat, e2: nat)
    requires el_walk(b, e) is None, e <= e2
    ensures el_walk(b, e2) is None
    decreases e2
{
    if e2 > e { lemma_el_none_mono(b, e, (e2 - 1) as nat); }
}
proof fn lemma_az_step(b: Seq<u8>, start: int, j: nat)
    ensures az_walk(b, start, j + 1) == (match az_walk(b, start, j) {
            None => None::<int>,
            Some(o) => if o + 2 > b.len() { None } else if o + 2 + 4 * be16(b, o) > b.len() { None }
                       else { Some(o + 2 + 4 * be16(b, o)) } })
{}
proof fn lemma_el_step(b: Seq<u8>, e: nat)
    ensures el_walk(b, e + 1) == (match el_walk(b, e) { None => None::<int>, Some(s) => az_walk(b, s, 360) })
{}

// error inside azimuth j of elevation e (header or zone k does not fit) => the whole structure does not fit
proof fn lemma_az_err(b: Seq<u8>, estart: int, e: nat, j: nat)
    requires el_walk(b, e) == Some(estart), j < 360, e < seg_count(b),
             az_walk(b, estart, j) is Some,
    ensures az_walk(b, estart, j)->Some_0 + 2 > b.len() ==> !cfm_fits(b)
{
    if az_walk(b, estart, j)->Some_0 + 2 > b.len() {
        lemma_az_step(b, estart, j);
        lemma_az_none_mono(b, estart, j + 1, 360);
        lemma_el_step(b, e);
        lemma_el_none_mono(b, e + 1, seg_count(b) as nat);
    }
}
proof fn lemma_zone_err(b: Seq<u8>, estart: int, e: nat, j: nat, o: int, k: int)
    requires el_walk(b, e) == Some(estart), j < 360, e < seg_count(b), az_walk(b, estart, j) == Some(o),
             o + 2 <= b.len(), 0 <= k < be16(b, o),
    ensures o + 2 + 4 * k + 4 > b.len() ==> !cfm_fits(b)
{
    if o + 2 + 4 * k + 4 > b.len() {
        lemma_az_step(b, estart, j);
        lemma_az_none_mono(b, estart, j + 1, 360);
        lemma_el_step(b, e);
        lemma_el_none_mono(b, e + 1, seg_count(b) as nat);
    }
}
