use vstd::std_specs::iter::IteratorSpec;

// concatenation of the radials of a sequence of sweeps, in order
spec fn flat(s: Seq<Sweep>) -> Seq<Radial>
    decreases s.len()
{
    if s.len() == 0 { Seq::empty() } else { flat(s.drop_last()) + s.last().radials@ }
}

// every radial of the sweep carries the sweep's elevation number
spec fn uniform(s: Sweep) -> bool {
    forall|j: int| 0 <= j < s.radials@.len() ==> (#[trigger] s.radials@[j]).elevation_number == s.elevation_number
}

broadcast proof fn flat_push(s: Seq<Sweep>, x: Sweep)
    ensures #[trigger] flat(s.push(x)) == flat(s) + x.radials@
{
    assert(s.push(x).drop_last() == s);
}

proof fn lemma_flat_len(s: Seq<Sweep>)
    requires forall|i: int| 0 <= i < s.len() ==> (#[trigger] s[i]).radials@.len() > 0
    ensures flat(s).len() >= s.len(), s.len() == 0 ==> flat(s).len() == 0
    decreases s.len()
{
    if s.len() > 0 {
        lemma_flat_len(s.drop_last());
    }
}

