@sig ret=res
    ensures
        // merging sweeps of different elevation numbers is an error (and only that)
        self.elevation_number != other.elevation_number <==> res is Err,
        // otherwise: exactly the union, ordered by azimuth number, ties in first-then-second order
        res is Ok ==> res->Ok_0.elevation_number == self.elevation_number
            && merged(self.radials@, other.radials@, res->Ok_0.radials@),
@entry
    broadcast use axiom_iter_seq_vec, axiom_key_le_u16;
@closure 0 params="radial: &Radial" ret="k: u16"
    ensures k == radial.azimuth_number
