@sig ret=r
    ensures r.elevation_number == elevation_number, r.radials == radials
