@sig ret=sweeps
    ensures
        // C09/C01: the concatenation of the sweeps is the input, in order (none lost, duplicated, reordered)
        flat(sweeps@) == radials@,
        // every sweep is non-empty
        forall|i: int| 0 <= i < sweeps@.len() ==> (#[trigger] sweeps@[i]).radials@.len() > 0,
        // every radial carries the elevation number of its sweep
        forall|i: int| 0 <= i < sweeps@.len() ==> uniform(#[trigger] sweeps@[i]),
        // adjacent sweeps carry different numbers (runs are maximal)
        forall|i: int| 0 <= i < sweeps@.len() - 1 ==> (#[trigger] sweeps@[i]).elevation_number != sweeps@[i + 1].elevation_number,
        // empty input gives no sweeps, non-empty input at least one
        radials@.len() == 0 ==> sweeps@.len() == 0,
        radials@.len() > 0 ==> sweeps@.len() >= 1,
@entry
    let ghost input = radials@;
    broadcast use flat_push;
@loop 0 header iter=it
    invariant
        it.snapshot@.remaining() == input,
        flat(sweeps@) + sweep_radials@ =~= it.history@,
        sweep_elevation_number is None <==> sweep_radials@.len() == 0,
        sweep_elevation_number is None ==> sweeps@.len() == 0,
        forall|i: int| 0 <= i < sweeps@.len() ==> (#[trigger] sweeps@[i]).radials@.len() > 0,
        forall|i: int| 0 <= i < sweeps@.len() ==> uniform(#[trigger] sweeps@[i]),
        forall|i: int| 0 <= i < sweeps@.len() - 1 ==> (#[trigger] sweeps@[i]).elevation_number != sweeps@[i + 1].elevation_number,
        sweep_elevation_number is Some ==> forall|j: int| 0 <= j < sweep_radials@.len() ==> (#[trigger] sweep_radials@[j]).elevation_number == sweep_elevation_number->0,
        sweep_elevation_number is Some && sweeps@.len() > 0 ==> sweeps@.last().elevation_number != sweep_elevation_number->0,
@loop 0 body-entry
    broadcast use flat_push;
@tail
    proof { lemma_flat_len(sweeps@); }
