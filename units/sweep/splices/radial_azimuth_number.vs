@sig ret=r
    ensures r == self.azimuth_number
