@sig ret=r
    ensures r == self.elevation_number
