#![feature(allocator_api)]
