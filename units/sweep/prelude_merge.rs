// ---- assumed std contracts used by Sweep::merge (listed as assumptions in the evidence) ----

// the element sequence an IntoIterator yields; for Vec it is the vector's contents in order
pub uninterp spec fn iter_seq<I: IntoIterator>(i: I) -> Seq<I::Item>;
pub broadcast axiom fn axiom_iter_seq_vec<T>(v: Vec<T>) ensures #[trigger] iter_seq(v) == v@;

// Vec::extend appends the iterator's elements in order
pub assume_specification<T, A: core::alloc::Allocator, I: IntoIterator<Item = T>>[ <Vec<T, A> as Extend<T>>::extend ](v: &mut Vec<T, A>, iter: I)
    ensures final(v)@ == old(v)@ + iter_seq(iter);

pub open spec fn pair_hint<T>(a: T, b: T) -> bool { true }
// the total order `Ord` gives a key type; for u16 it is <=
pub uninterp spec fn key_le<K>(a: K, b: K) -> bool;
pub broadcast axiom fn axiom_key_le_u16(a: u16, b: u16) ensures #[trigger] key_le(a, b) == (a <= b);

// b is a rearrangement of a: b[i] == a[p[i]] with p injective and in range
pub open spec fn is_perm_of<T>(a: Seq<T>, b: Seq<T>, p: Seq<int>) -> bool {
    &&& p.len() == a.len() && b.len() == a.len()
    &&& forall|i: int| 0 <= i < p.len() ==> 0 <= #[trigger] p[i] < a.len()
    &&& forall|i: int, j: int| 0 <= i < j < p.len() ==> #[trigger] p[i] != #[trigger] p[j]
    &&& forall|i: int| 0 <= i < b.len() ==> #[trigger] b[i] == a[p[i]]
}

// slice::sort_by_key is a *stable* sort by the key the closure returns
pub assume_specification<T, K: Ord, F: FnMut(&T) -> K>[ <[T]>::sort_by_key ](s: &mut [T], f: F)
    requires forall|x: &T| #[trigger] f.requires((x,)),
    ensures
        exists|p: Seq<int>| {
            &&& #[trigger] is_perm_of(old(s)@, final(s)@, p)
            &&& forall|i: int, j: int| 0 <= i < j < final(s)@.len() ==> pair_hint(#[trigger] final(s)@[i], #[trigger] final(s)@[j]) && exists|ki: K, kj: K| {
                    &&& #[trigger] f.ensures((&final(s)@[i],), ki) && #[trigger] f.ensures((&final(s)@[j],), kj)
                    &&& key_le(ki, kj)
                    &&& (ki == kj ==> p[i] < p[j])
                }
        }
;

// C09 merge clause, from the property text: `out` is exactly the union of a then b, ordered by azimuth
// number, ties kept in first(a)-then-second(b) order (p indexes into a + b)
spec fn merged(a: Seq<Radial>, b: Seq<Radial>, out: Seq<Radial>) -> bool {
    exists|p: Seq<int>| {
        &&& #[trigger] is_perm_of(a + b, out, p)
        &&& forall|i: int, j: int| 0 <= i < j < out.len() ==> (#[trigger] out[i]).azimuth_number <= (#[trigger] out[j]).azimuth_number
        &&& forall|i: int, j: int| 0 <= i < j < out.len() && out[i].azimuth_number == out[j].azimuth_number ==> #[trigger] p[i] < #[trigger] p[j]
    }
}

pub assume_specification<T, A: core::alloc::Allocator> [ <Vec<T, A> as AsRef<Vec<T, A>>>::as_ref ] (v: &Vec<T, A>) -> (r: &Vec<T, A>)
    ensures r == v;
