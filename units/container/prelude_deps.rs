// opaque stand-ins for the other workspace crates' error types (carried in error variants only)
mod nexrad_decode { pub mod result { #[verifier::external_body] pub struct Error { _p: () } } }
mod nexrad_model { pub mod result { #[verifier::external_body] pub struct Error { _p: () } } }
mod reqwest { #[verifier::external_body] pub struct Error { _p: () } }
mod bincode { #[verifier::external_body] pub struct Error { _p: () } }
mod bzip2 { #[verifier::external_body] pub struct Error { _p: () } }
