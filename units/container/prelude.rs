// ---- stand-ins for dependency types that are only carried inside error variants -----------------
mod aws { pub(crate) use super::AWSError; }
mod result { pub(crate) use super::{Error, Result}; }
mod volume { pub(crate) use super::{File, Record}; }
use AWSError::UnrecognizedChunkFormat;
use Error::AWS;


global layout Header is size == 24, align == 4;

// ---- trusted std contracts -----------------------------------------------------------------------
spec fn be32(b: Seq<u8>) -> int { b[0] as int * 16777216 + b[1] as int * 65536 + b[2] as int * 256 + b[3] as int }
spec fn be_i32(b: Seq<u8>) -> int { if be32(b) >= 0x8000_0000 { be32(b) - 0x1_0000_0000 } else { be32(b) } }

// R-shim: the body *is* the std call it replaces
#[verifier::external_body]
fn shim_i32_from_be_bytes(b: [u8; 4]) -> (r: i32)
    ensures r as int == be_i32(b@)
{ i32::from_be_bytes(b) }

#[verifier::external_body]
fn shim_u32_from_be_bytes(b: [u8; 4]) -> (r: u32)
    ensures r as int == be32(b@)
{ u32::from_be_bytes(b) }

pub assume_specification [ i32::unsigned_abs ] (x: i32) -> (r: u32)
    ensures r as int == (if x < 0 { -(x as int) } else { x as int });

// ---- specification, written from the property text ----------------------------------------------
impl<'a> Record<'a> {
    spec fn view(&self) -> Seq<u8> {
        match self.0 { RecordData::Borrowed(d) => d@, RecordData::Owned(v) => v@ }
    }
}

spec fn views(rs: Seq<Record<'_>>) -> Seq<Seq<u8>> { rs.map_values(|r: Record| r.view()) }

// 'B' 'Z' right after the 4-byte size prefix
spec fn is_bz(d: Seq<u8>) -> bool { d.len() >= 6 && d[4] == 66 && d[5] == 90 }
spec fn has_ar2(d: Seq<u8>) -> bool { d.len() >= 3 && d[0] == 65 && d[1] == 82 && d[2] == 50 }

// |size| of the record starting at d[0]: the sign of the big-endian prefix is ignored
spec fn rec_size(d: Seq<u8>) -> int { let s = be_i32(d.take(4)); if s < 0 { -s } else { s } }

// the record list of a byte string: each record is its 4-byte prefix plus |size| bytes, in order;
// a truncated prefix or a record running past the end stops the list (shorter list, never a crash)
spec fn tile(d: Seq<u8>) -> Seq<Seq<u8>>
    decreases d.len()
{
    if d.len() < 4 || d.len() - 4 < rec_size(d) { Seq::empty() }
    else { seq![d.take(4 + rec_size(d))] + tile(d.skip(4 + rec_size(d))) }
}

// well-formed record area: exactly a sequence of (prefix, |prefix| bytes)
spec fn wf(d: Seq<u8>) -> bool
    decreases d.len()
{
    d.len() == 0 || (d.len() >= 4 && d.len() - 4 >= rec_size(d) && wf(d.skip(4 + rec_size(d))))
}

spec fn concat(s: Seq<Seq<u8>>) -> Seq<u8>
    decreases s.len()
{
    if s.len() == 0 { Seq::empty() } else { s.first() + concat(s.drop_first()) }
}

proof fn lemma_tile_unfold(d: Seq<u8>)
    ensures tile(d) == (if d.len() < 4 || d.len() - 4 < rec_size(d) { Seq::<Seq<u8>>::empty() }
                        else { seq![d.take(4 + rec_size(d))] + tile(d.skip(4 + rec_size(d))) })
{}

proof fn lemma_views_push(rs: Seq<Record<'_>>, r: Record<'_>)
    ensures views(rs.push(r)) == views(rs).push(r.view())
{
    assert(views(rs.push(r)) =~= views(rs).push(r.view()));
}

// C05 tiling clause: for well-formed data the records, concatenated in order, are the data; each record
// is prefix + |size| bytes
proof fn lemma_tile_wf(d: Seq<u8>)
    requires wf(d)
    ensures concat(tile(d)) == d,
            forall|i: int| 0 <= i < tile(d).len() ==> (#[trigger] tile(d)[i]).len() == 4 + rec_size(tile(d)[i]),
    decreases d.len()
{
    if d.len() == 0 {
        assert(concat(tile(d)) =~= d);
    } else {
        let n = 4 + rec_size(d);
        lemma_tile_wf(d.skip(n));
        let t = tile(d);
        assert(t == seq![d.take(n)] + tile(d.skip(n)));
        assert(t.first() == d.take(n));
        assert(t.drop_first() =~= tile(d.skip(n)));
        assert(concat(t) =~= d.take(n) + d.skip(n));
        assert(d.take(n) + d.skip(n) =~= d);
        assert(d.take(n).take(4) =~= d.take(4));
        assert forall|i: int| 0 <= i < t.len() implies (#[trigger] t[i]).len() == 4 + rec_size(t[i]) by {
            if i > 0 { assert(t[i] == tile(d.skip(n))[i - 1]); }
        }
    }
}

// vacuity witness: a well-formed area with one record of two payload bytes exists
proof fn wf_witness()
    ensures wf(seq![0u8, 0u8, 0u8, 2u8, 7u8, 9u8])
{
    let d = seq![0u8, 0u8, 0u8, 2u8, 7u8, 9u8];
    assert(d.take(4) =~= seq![0u8, 0u8, 0u8, 2u8]);
    assert(be32(d.take(4)) == 2);
    assert(rec_size(d) == 2);
    assert(d.skip(6).len() == 0);
    assert(wf(d.skip(6)));
}

// `[u8] == [u8; N]` compares the contents (vstd leaves eq_spec of slice-vs-array uninterpreted)
pub broadcast axiom fn axiom_slice_array_eq_u8<const N: usize>(s: &[u8], a: &[u8; N])
    ensures #[trigger] <[u8] as vstd::std_specs::cmp::PartialEqSpec<[u8; N]>>::eq_spec(s, a) == (s@ == a@);

pub assume_specification<T> [<[T] as std::convert::AsRef<[T]>>::as_ref] (s: &[T]) -> (r: &[T])
    ensures r == s;
