@sig ret=r
    ensures
        // total on every byte string (C06); start chunk iff 'AR2' magic, else record iff 'BZ' after the prefix
        has_ar2(data@) ==> (r is Ok && r->Ok_0 is Start && r->Ok_0->Start_0.0 == data),
        !has_ar2(data@) && is_bz(data@) ==> (r is Ok && r->Ok_0 is IntermediateOrEnd && r->Ok_0->IntermediateOrEnd_0.view() == data@),
        !has_ar2(data@) && !is_bz(data@) ==> r is Err,
@entry
    broadcast use axiom_slice_array_eq_u8;
    proof {
        if data@.len() >= 3 {
            let s = data@.subrange(0, 3);
            let a: [u8; 3] = [65u8, 82u8, 50u8];
            assert(s.len() == 3 && s[0] == data@[0] && s[1] == data@[1] && s[2] == data@[2]);
            assert((s == a@) <==> (s[0] == 65 && s[1] == 82 && s[2] == 50)) by {
                if s[0] == 65 && s[1] == 82 && s[2] == 50 { assert(s =~= a@); }
            }
        }
        if data@.len() >= 6 {
            let s = data@.subrange(4, 6);
            let a: [u8; 2] = [66u8, 90u8];
            assert(s.len() == 2 && s[0] == data@[4] && s[1] == data@[5]);
            assert((s == a@) <==> (s[0] == 66 && s[1] == 90)) by {
                if s[0] == 66 && s[1] == 90 { assert(s =~= a@); }
            }
        }
    }
