@sig ret=r
    ensures
        // C05: the records tile the bytes after the 24-byte header; C06: shorter-than-header => empty list
        views(r@) == (if self.0@.len() < 24 { Seq::<Seq<u8>>::empty() } else { tile(self.0@.skip(24)) }),
