@sig ret=records
    ensures
        // C05/C06: the record list is the size-prefix tiling of the data, for *every* byte string
        // (truncated tail => shorter list); lemma_tile_wf turns this into exact tiling for well-formed data
        views(records@) == tile(data@),
@before "loop"
    proof {
        assert(data@.skip(0) =~= data@);
        assert(views(records@) =~= Seq::<Seq<u8>>::empty());
        assert(views(records@) + tile(data@) =~= tile(data@));
    }
@loop 0 header
    invariant
        position <= data.len(),
        tile(data@) == views(records@) + tile(data@.skip(position as int)),
    ensures
        views(records@) == tile(data@),
    decreases data.len() - position
@loop 0 body-entry
    proof { lemma_tile_unfold(data@.skip(position as int)); }
    let ghost old_records = records@;
@before "position += record_size + 4"
    proof {
        let d = data@.skip(position as int);
        assert(data@.subrange(position as int, position + 4) == d.take(4));
        assert(data@.subrange(position as int, position + record_size + 4) == d.take(4 + record_size as int));
        assert(data@.skip(position as int).skip(4 + record_size as int) == data@.skip(position + record_size + 4));
        lemma_views_push(old_records, records@.last());
    }
