@sig ret=r
    ensures r@ == (match *self { Chunk::Start(f) => f.0@, Chunk::IntermediateOrEnd(rec) => rec.view() })
