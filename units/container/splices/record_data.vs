@sig ret=r
    ensures r@ == self.view()
