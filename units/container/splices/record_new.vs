@sig ret=r
    ensures r.view() == data@
