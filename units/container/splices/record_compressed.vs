@sig ret=r
    // C05: compressed exactly when the bytes 'BZ' follow the 4-byte prefix; total on every record (C06)
    ensures r == is_bz(self.view())
@entry
    broadcast use axiom_slice_array_eq_u8;
    proof {
        if self.view().len() >= 6 {
            let s = self.view().subrange(4, 6);
            let a: [u8; 2] = [66u8, 90u8];
            assert(s.len() == 2 && s[0] == self.view()[4] && s[1] == self.view()[5]);
            assert((s == a@) <==> (s[0] == 66 && s[1] == 90)) by {
                if s[0] == 66 && s[1] == 90 { assert(s =~= a@); }
            }
        }
    }
